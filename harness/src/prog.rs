//! Programs derived by TLC from Gen.tla / Grammar.tla, rendered in many layouts (mirror of spec/Layout.tla's
//! transformations: gaps, comments, blank-line groups, conditional directives, verbatim regions), with the
//! structure marks the generator knows.

use crate::gen::{Case, Suite};
use crate::obs::*;
use rand::rngs::StdRng;
use rand::{Rng, SeedableRng};
use serde_json::{json, Value};

#[derive(Debug, Clone)]
pub enum Item {
    Tok(String),
    /// a token that is an identifier by the grammar (whatever its spelling)
    Ident(String),
    Mark { kind: char, key: u32, refk: u32, delta: u32 },
    End(u32),
}

#[derive(Debug, Clone)]
pub struct Program {
    pub items: Vec<Item>,
    pub start: String,
}

pub fn load_programs(path: &str) -> Vec<Program> {
    std::fs::read_to_string(path)
        .unwrap_or_else(|e| panic!("cannot read programs {path}: {e}"))
        .lines()
        .filter(|l| !l.trim().is_empty())
        .map(|l| {
            let v: Value = serde_json::from_str(l).expect("program json");
            let items = v["items"]
                .as_array()
                .unwrap()
                .iter()
                .map(|it| {
                    let a = it.as_array().unwrap();
                    match a[0].as_str().unwrap() {
                        "t" => Item::Tok(a[1].as_str().unwrap().to_string()),
                        "i" => Item::Ident(a[1].as_str().unwrap().to_string()),
                        "m" => Item::Mark {
                            kind: a[1].as_str().unwrap().chars().next().unwrap(),
                            key: a[2].as_u64().unwrap() as u32,
                            refk: a[3].as_u64().unwrap() as u32,
                            delta: a[4].as_u64().unwrap() as u32,
                        },
                        "e" => Item::End(a[1].as_u64().unwrap() as u32),
                        x => panic!("unknown item {x}"),
                    }
                })
                .collect();
            Program { items, start: v["start"].as_str().unwrap_or("").to_string() }
        })
        .collect()
}

#[derive(Debug, Clone, Default)]
pub struct Opts {
    pub comments: bool,
    pub blank_lines: bool,
    pub directives: bool,
    pub regions: bool,
    pub tight: bool,
    /// comments and directives are followed by a lone CR instead of LF
    pub cr_comments: bool,
    /// a second verbatim region shortly after the first; regions that run to the end of the file; runs of blank lines
    /// in the middle of statements (only for the layouts of C07 / C08, never for re-layout pairs)
    pub regions2: bool,
    /// spacing mode: 0 = one space everywhere, 1 = pretty (new line per marked token, indented), 2 = random mixture,
    /// 3 = every gap a line break, 4 = CRLF pretty with tabs
    pub spacing_mode: u32,
    /// the line breaks INSIDE multi-line tokens (block comments, multi-line literals) are CRLF (a CRLF source file)
    pub crlf_tokens: bool,
    /// the gaps INSIDE verbatim regions come from the decoration seed (so that every re-layout keeps the region's bytes),
    /// and now and then a second `pasfmt off` comment stands inside the region (it must not nest)
    pub fixed_regions: bool,
}

#[derive(Debug, Clone)]
pub struct MarkAt {
    pub kind: char,
    pub key: u32,
    pub refk: u32,
    pub delta: u32,
    /// ordinal of the marked token among the plain (non-comment, non-directive) tokens
    pub ordinal: usize,
}

#[derive(Debug, Clone)]
pub struct Rendered {
    pub text: String,
    /// texts of the plain tokens, in order
    pub plain: Vec<String>,
    pub marks: Vec<MarkAt>,
    /// byte ranges that must be kept verbatim (pasfmt off .. on)
    pub regions: Vec<(usize, usize, bool)>,
    /// number of inserted comments / directives
    pub inserted: usize,
    /// ordinals (among the plain tokens) of the tokens that are identifiers by the grammar
    pub idents: Vec<usize>,
}

const ML_BODIES: [&[&str]; 6] = [&["line one", "line two"], &["a"], &["  indented more", "back"], &["x", "", "y"], &["trailing   ", "z"], &["'' quotes ''", "q"]];

fn ml_literal(tok: &str, rng: &mut StdRng) -> String {
    let q = if tok == "ML5" { "'''''" } else { "'''" };
    let ind = [" ", "  ", "    ", "\t", "      "][rng.gen_range(0..5)];
    let body = ML_BODIES[rng.gen_range(0..ML_BODIES.len())];
    let mut s = String::from(q);
    for l in body {
        s.push('\n');
        if !(l.is_empty() && tok == "ML3b") {
            s.push_str(ind);
        }
        s.push_str(l);
    }
    s.push('\n');
    s.push_str(ind);
    s.push_str(q);
    s
}

fn gap_rng(seed: u64, i: usize, salt: u64) -> StdRng {
    StdRng::seed_from_u64(seed.wrapping_mul(0x9E3779B97F4A7C15) ^ (i as u64).wrapping_mul(0xD1B54A32D192ED03) ^ salt)
}

/// Render a program. `deco` decides comments / blank lines / directives / regions / string bodies (the part of the
/// layout that the output may depend on); `spacing` decides only what C06 says must not matter.
pub fn render(p: &Program, deco: u64, spacing: u64, o: &Opts) -> Rendered {
    // 1. flatten: tokens with the marks in front of them and construct extents
    let mut toks: Vec<String> = vec![];
    let mut marks: Vec<MarkAt> = vec![];
    let mut begin_of: std::collections::HashMap<u32, usize> = Default::default();
    let mut extent: Vec<(usize, usize, char)> = vec![]; // (first token, one past last token, kind) of S constructs
    let mut depth_at: Vec<u32> = vec![]; // pretty-print depth per token
    let mut kind_of: std::collections::HashMap<u32, char> = Default::default();
    let mut pending: Vec<(char, u32, u32, u32)> = vec![];
    let mut idents: Vec<usize> = vec![];
    for it in &p.items {
        if let Item::Ident(_) = it {
            idents.push(toks.len());
        }
        match it {
            Item::Mark { kind, key, refk, delta } => pending.push((*kind, *key, *refk, *delta)),
            Item::Tok(t) | Item::Ident(t) => {
                let ord = toks.len();
                for (kind, key, refk, delta) in pending.drain(..) {
                    marks.push(MarkAt { kind, key, refk, delta, ordinal: ord });
                    begin_of.insert(key, ord);
                    kind_of.insert(key, kind);
                }
                let mut r = gap_rng(deco, ord, 77);
                toks.push(if t.starts_with("ML") && t.len() <= 4 { let l = ml_literal(t, &mut r); if o.crlf_tokens { l.replace('\n', "\r\n") } else { l } } else { t.clone() });
            }
            Item::End(key) => {
                if let (Some(b), Some(k)) = (begin_of.get(key), kind_of.get(key)) {
                    if toks.len() > *b {
                        extent.push((*b, toks.len(), *k));
                    }
                }
            }
        }
    }
    // pretty depth: from marks (S/D: depth of ref + delta)
    let mut key_depth: std::collections::HashMap<u32, u32> = Default::default();
    key_depth.insert(0, 0);
    let mut mark_at_tok: std::collections::HashMap<usize, &MarkAt> = Default::default();
    for m in &marks {
        let d = key_depth.get(&m.refk).copied().unwrap_or(0) + if m.kind == 'C' || m.kind == 'B' || m.kind == 'E' { 0 } else { m.delta };
        key_depth.insert(m.key, if matches!(m.kind, 'R' | 'A' | 'T') { key_depth.get(&m.refk).copied().unwrap_or(0) + 1 } else { d });
        if !matches!(m.kind, 'R' | 'A' | 'T') || !mark_at_tok.contains_key(&m.ordinal) {
            mark_at_tok.entry(m.ordinal).or_insert(m);
        }
    }
    let mut cur_depth = 0u32;
    for i in 0..toks.len() {
        if let Some(m) = mark_at_tok.get(&i) {
            cur_depth = key_depth.get(&m.key).copied().unwrap_or(cur_depth);
            if matches!(m.kind, 'R' | 'A' | 'T') {
                cur_depth = cur_depth.saturating_sub(1).max(key_depth.get(&m.refk).copied().unwrap_or(0));
            }
        }
        depth_at.push(cur_depth);
    }

    // 2. decorations
    #[derive(Clone, PartialEq)]
    enum Deco {
        None,
        Blank,
        EolComment(String),
        OwnLineComment(String),
        InlineBlock(String),
        MultiBlock(String),
        /// a line comment followed by another comment (block on the next line, or a second line comment)
        TwoComments(String, String),
    }
    let n = toks.len();
    let mut deco_before: Vec<Deco> = vec![Deco::None; n + 1];
    let is_stmt_start = |i: usize| mark_at_tok.get(&i).is_some_and(|m| matches!(m.kind, 'S' | 'D'));
    let is_marked = |i: usize| mark_at_tok.get(&i).is_some_and(|m| matches!(m.kind, 'S' | 'D' | 'C'));
    let line_comments = ["// c", "//c", "// Comment With Words", "//--------------------", "/// Doc", "//X  ", "// é", "// TODO: End Begin", "///--------------------", "///==========", "///x  "];
    let block_comments = ["{c}", "(* C *)", "{ A Longer Block Comment }", "{}", "{Internal State}"];
    for i in 1..n {
        let mut r = gap_rng(deco, i, 1);
        let x: u32 = r.gen_range(0..1000);
        deco_before[i] = if o.blank_lines && is_stmt_start(i) && x < 120 {
            Deco::Blank
        } else if o.comments && x >= 120 && x < 150 {
            Deco::EolComment(line_comments[r.gen_range(0..line_comments.len())].to_string())
        } else if o.comments && is_marked(i) && x >= 150 && x < 230 {
            Deco::OwnLineComment(line_comments[r.gen_range(0..line_comments.len())].to_string())
        } else if o.comments && x >= 230 && x < 250 {
            Deco::InlineBlock(block_comments[r.gen_range(0..block_comments.len())].to_string())
        } else if o.comments && is_marked(i) && x >= 250 && x < 280 {
            Deco::MultiBlock(if o.crlf_tokens { "{ multi\r\n  line\r\n  and more }" } else { "{ multi\n  line }" }.to_string())
        } else if o.comments && is_marked(i) && x >= 280 && x < 330 {
            // (a comment on its own line in the middle of a construct is a placement that several parser heuristics do not
            // see through - see DESIGN.md, findings; own-line comments are generated between statements / declarations)
            Deco::TwoComments(line_comments[r.gen_range(0..line_comments.len())].to_string(), if x % 2 == 0 { block_comments[r.gen_range(0..block_comments.len())].to_string() } else { line_comments[r.gen_range(0..line_comments.len())].to_string() })
        } else {
            Deco::None
        };
    }
    // conditional directives around whole statements (with their `;`)
    let mut dir_before: Vec<Vec<String>> = vec![vec![]; n + 1];
    if o.directives {
        let mut taken_until = 0usize;
        for (k, (b, e, kind)) in extent.iter().enumerate() {
            if !matches!(kind, 'S' | 'D') || *b < taken_until {
                continue;
            }
            let mut r = gap_rng(deco, k, 5);
            if r.gen_range(0..100) < 12 {
                let mut end = *e;
                if end < n && toks[end] == ";" {
                    end += 1;
                }
                let open = ["{$ifdef DEBUG}", "{$IFNDEF X}", "{$if Defined(A) and (B > 1)}", "(*$ifdef A*)", "(*$ifNdef Abc *)", "{$ifopt R+}",
                            "{$if CloseChar = '}'}", "(*$if Sep = '*)' *)"][r.gen_range(0..8)];
                dir_before[*b].push(open.to_string());
                let expr = open.starts_with("{$if ") || open.starts_with("(*$if ");
                dir_before[end].insert(0, if expr { ["{$ifend}", "(*$IfEnd*)"][r.gen_range(0..2)] } else { ["{$endif}", "{$endif}", "(*$endif*)", "(*$EndIf Debug *)"][r.gen_range(0..4)] }.to_string());
                // now and then further (empty) branches whose expressions hide their own closing delimiter
                // (statements only: a declaration that vanishes under some valuation can change what the declarations after it are)
                if expr && *kind == 'S' && r.gen_range(0..3) == 0 {
                    dir_before[end].insert(0, ["{$else}", "(*$ELSE*)"][r.gen_range(0..2)].to_string());
                    dir_before[end].insert(0, ["{$elseif Other = '}'}", "(*$ELSEIF x = '*)' *)", "{$elseif {$I v.inc} > 3}", "{$ElseIf Defined(B)}"][r.gen_range(0..4)].to_string());
                }
                taken_until = end;
            }
        }
    }
    // verbatim regions: (first token, last token, off comment, on comment or "" when the region runs to the end of the file)
    let mut region_list: Vec<(usize, usize, String, String)> = vec![];
    if o.regions && n >= 2 {
        let mut r = gap_rng(deco, 0, 9);
        let a = r.gen_range(0..n);
        let span = r.gen_range(0..12);
        let b = r.gen_range(a..n.min(a + 1 + span));
        let offs = ["// pasfmt off", "//pasfmt off", "{pasfmt off}", "(* pasfmt off *)", "// PASFMT OFF", "{ pasfmt   off }", "// pasfmt off and some words",
                    "{\r\n pasfmt off\r\n}", "(*\n  pasfmt\r\n off *)", "{\tpasfmt\toff}"];
        let ons = ["// pasfmt on", "{pasfmt on}", "(* PasFmt On *)", "//pasfmt on", "// pasfmt on again", "{\r\npasfmt\r\non }"];
        let to_eof = o.regions2 && r.gen_range(0..4) == 0;
        region_list.push((a, if to_eof { n - 1 } else { b }, offs[r.gen_range(0..offs.len())].to_string(), if to_eof { String::new() } else { ons[r.gen_range(0..ons.len())].to_string() }));
        if o.regions2 && !to_eof && b + 3 < n {
            // a second region a few tokens later (often inside the same statement)
            let a2 = b + 1 + r.gen_range(1..4).min(n - b - 2);
            let b2 = (a2 + r.gen_range(0..6)).min(n - 1);
            region_list.push((a2, b2, offs[r.gen_range(0..7)].to_string(), ons[r.gen_range(0..5)].to_string()));
        }
    }
    let region_starting_at = |i: usize| region_list.iter().find(|x| x.0 == i);
    let region_ending_at = |i: usize| region_list.iter().find(|x| x.1 == i);

    // 3. emit
    let mut text = String::new();
    let mut regions = vec![];
    let mut region_start: Option<usize> = None;
    let mut inserted = 0usize;
    // line break used in gaps that touch a comment or directive (part of the decoration: kept by every re-layout)
    let nlc: &str = if o.cr_comments { "\r" } else { "\n" };
    let crlf = o.spacing_mode == 4;
    let nl = if crlf { "\r\n" } else if o.spacing_mode == 5 { "\r" } else { "\n" };
    let indent_unit = if o.spacing_mode == 4 { "\t" } else { "  " };
    let mut need_newline = false; // after a line comment
    for i in 0..n {
        let mut r = gap_rng(spacing, i, 3);
        let marked_line_start = mark_at_tok.get(&i).is_some_and(|m| matches!(m.kind, 'S' | 'D' | 'C' | 'R' | 'A' | 'T' | 'U' | 'E')) && !(matches!(mark_at_tok[&i].kind, 'R' | 'A' | 'T') && i > 0 && !is_marked(i) && !matches!(toks[i].as_str(), "begin" | "const" | "var" | "type" | "threadvar" | "resourcestring" | "private" | "protected" | "public" | "published" | "strict" | "initialization" | "finalization" | "procedure" | "function" | "constructor" | "destructor" | "class"));
        let ind: String = indent_unit.repeat(depth_at[i] as usize);
        let ind_c: String = "  ".repeat(depth_at[i] as usize);
        // the spacing-dependent gap (what C06 says must not matter)
        let after_literal = i > 0 && toks[i - 1].starts_with(|c: char| c.is_ascii_digit() || matches!(c, '$' | '%' | '\'' | '#'));
        let plain_gap = |r: &mut StdRng, force_nl: bool| -> String {
            if i == 0 {
                return String::new();
            }
            if after_literal && !force_nl {
                // after a literal the formatter keeps "at most one" space of the input, line breaks included (known
                // finding F8, probed separately): every layout puts exactly one space here
                return " ".to_string();
            }
            if force_nl {
                return match o.spacing_mode {
                    0 | 3 => nl.to_string(),
                    1 | 4 | 5 => format!("{nl}{ind}"),
                    _ => format!("{nl}{}", " ".repeat(r.gen_range(0..9))),
                };
            }
            match o.spacing_mode {
                0 => " ".to_string(),
                1 | 4 | 5 => if marked_line_start { format!("{nl}{ind}") } else { " ".to_string() },
                3 => nl.to_string(),
                _ => match r.gen_range(0..100) {
                    0..=54 => " ".to_string(),
                    55..=59 => "  ".to_string(),
                    60..=62 => "\t".to_string(),
                    // zero-width gaps, except after a literal: there the formatter deliberately keeps "at most one" space
                    // of the input (known finding F8), which is probed separately
                    63..=67 => if o.tight && !toks[i - 1].starts_with(|c: char| c.is_ascii_digit() || matches!(c, '$' | '%' | '\'' | '#')) { String::new() } else { " ".to_string() },
                    68..=70 => if o.regions2 && !o.fixed_regions { format!("{nl}{nl}{nl}") } else { nl.to_string() },
                    71..=84 => nl.to_string(),
                    _ => format!("{nl}{}", " ".repeat(r.gen_range(1..13))),
                },
            }
        };
        // region start
        if let Some((_, _, off, _)) = region_starting_at(i) {
            if i > 0 {
                text.push_str(nlc);
            }
            region_start = Some(text.len());
            text.push_str(off);
            text.push_str(nlc);
            need_newline = false;
            inserted += 1;
        }
        let in_region = region_start.is_some();
        // directives before this token (own lines)
        for d in &dir_before[i] {
            if !text.is_empty() && !text.ends_with('\n') {
                text.push_str(nlc);
            }
            text.push_str(d);
            text.push_str(nlc);
            need_newline = false;
            inserted += 1;
        }
        // (the line break after a region's `on` comment belongs to the decoration, like the one after a directive)
        let after_directive = !dir_before[i].is_empty() || (o.fixed_regions && i > 0 && region_ending_at(i - 1).is_some_and(|x| !x.3.is_empty()) && text.ends_with(nlc));
        let fixed_here = o.fixed_regions && in_region && region_starting_at(i).is_none() && !after_directive;
        if fixed_here {
            let mut rd = gap_rng(deco, i, 31);
            match rd.gen_range(0..100) {
                0..=7 => {
                    text.push_str("\n// pasfmt off\n");
                    inserted += 1;
                }
                8..=59 => text.push(' '),
                60..=69 => text.push_str("   "),
                70..=84 => text.push('\n'),
                _ => {
                    text.push('\n');
                    text.push_str(&" ".repeat(rd.gen_range(1..9)));
                }
            }
            need_newline = false;
        }
        match if fixed_here { &Deco::None } else { &deco_before[i] } {
            Deco::Blank => {
                // a blank-line group: the group itself is kept by every re-layout, its indentation is free
                if !after_directive {
                    text.push_str(nl);
                    if need_newline {
                        need_newline = false;
                    }
                    text.push_str(nl);
                    let g = plain_gap(&mut r, true);
                    text.push_str(g.trim_start_matches(['\r', '\n']));
                } else {
                    text.push_str(&ind_c);
                }
            }
            Deco::EolComment(c) => {
                text.push(' ');
                text.push_str(c);
                text.push_str(nlc);
                text.push_str(&ind_c);
                inserted += 1;
            }
            Deco::OwnLineComment(c) => {
                if !text.ends_with('\n') {
                    text.push_str(nlc);
                }
                text.push_str(&ind_c);
                text.push_str(c);
                text.push_str(nlc);
                text.push_str(&ind_c);
                inserted += 1;
            }
            Deco::TwoComments(c1, c2) => {
                text.push(' ');
                text.push_str(c1);
                text.push_str(nlc);
                text.push_str(&ind_c);
                text.push_str(c2);
                if c2.starts_with("//") {
                    text.push_str(nlc);
                    text.push_str(&ind_c);
                } else {
                    text.push(' ');
                }
                inserted += 2;
            }
            Deco::InlineBlock(c) => {
                text.push(' ');
                text.push_str(c);
                text.push(' ');
                inserted += 1;
            }
            Deco::MultiBlock(c) => {
                if !text.ends_with('\n') {
                    text.push_str(nlc);
                }
                text.push_str(&ind_c);
                text.push_str(c);
                text.push_str(nlc);
                text.push_str(&ind_c);
                inserted += 1;
            }
            Deco::None => {
                if fixed_here {
                    // (gap already written)
                } else if after_directive {
                    // a gap that touches a directive is kept by every re-layout
                    text.push_str(&ind_c);
                } else if in_region && region_starting_at(i).is_some() {
                    // first token of the region follows the off comment's line
                } else {
                    let g = plain_gap(&mut r, need_newline);
                    text.push_str(&g);
                }
                need_newline = false;
            }
        }
        let _ = need_newline;
        text.push_str(&toks[i]);
        // region end
        if let Some((_, _, _, on)) = region_ending_at(i) {
            if !on.is_empty() {
                if let Some(s) = region_start.take() {
                    text.push_str(nlc);
                    text.push_str(on);
                    regions.push((s, text.len(), false));
                    text.push_str(nlc);
                    inserted += 1;
                }
            }
        }
    }
    for d in &dir_before[n] {
        if !text.ends_with('\n') {
            text.push_str(nlc);
        }
        text.push_str(d);
        inserted += 1;
    }
    let mut open_at_eof = false;
    if let Some(s) = region_start.take() {
        let mut r = gap_rng(deco, n, 11);
        match r.gen_range(0..3) {
            0 => text.push_str(" // tail"),
            1 => text.push_str("\n\n  "),
            _ => {}
        }
        regions.push((s, text.len(), true));
        open_at_eof = true;
    }
    if !open_at_eof && (o.spacing_mode == 1 || o.spacing_mode == 4 || o.spacing_mode == 5) && !(o.fixed_regions && text.ends_with(['\n', '\r'])) {
        text.push_str(nl);
    }
    Rendered { text, plain: toks, marks, regions, inserted, idents }
}

/// Does `text` scan to exactly the intended plain tokens (comments and directives aside)? (R4: the harness never
/// feeds a pair that is not in the property's domain.)
pub fn scans_as_intended(r: &Rendered) -> bool {
    match lex(&r.text) {
        Ok(toks) => {
            let plain: Vec<&str> = toks.iter().filter(|t| !t.is_comment() && !t.is_directive() && t.kind != "Eof").map(|t| t.text(&r.text)).collect();
            plain.len() == r.plain.len() && plain.iter().zip(&r.plain).all(|(a, b)| *a == b.as_str())
        }
        Err(_) => false,
    }
}

pub struct Programs {
    pub progs: Vec<Program>,
    /// layout variants per program: (deco, spacing, opts)
    pub variants: Vec<(u64, u64, Opts)>,
    /// alternative spacings for the C06 relation
    pub alt_spacings: Vec<(u64, u32)>,
}

impl Suite for Programs {
    fn len(&self) -> u64 {
        (self.progs.len() * self.variants.len()) as u64
    }
    fn get(&self, i: u64) -> Case {
        let pi = (i as usize) / self.variants.len();
        let vi = (i as usize) % self.variants.len();
        let p = &self.progs[pi];
        let (deco, spacing, opts) = &self.variants[vi];
        let deco = deco.wrapping_add(pi as u64 * 1000003);
        let mut o = opts.clone();
        let mut r = render(p, deco, *spacing, &o);
        if !scans_as_intended(&r) {
            o.tight = false;
            r = render(p, deco, *spacing, &o);
        }
        let ok = scans_as_intended(&r);
        if !ok && std::env::var("VH_DEBUG").is_ok() {
            crate::debug_scan(&r.text, &r.plain);
        }
        let mut alts = vec![];
        if ok {
            for (s, mode) in &self.alt_spacings {
                let mut o2 = o.clone();
                o2.spacing_mode = *mode;
                o2.tight = *mode == 2;
                let mut a = render(p, deco, *s, &o2);
                if !scans_as_intended(&a) {
                    o2.tight = false;
                    a = render(p, deco, *s, &o2);
                }
                // verbatim regions: only layouts that keep the regions' bytes are re-layouts (fixed_regions)
                let same_regions = a.regions.len() == r.regions.len()
                    && a.regions.iter().zip(&r.regions).all(|(x, y)| x.2 == y.2 && a.text[x.0..x.1] == r.text[y.0..y.1]);
                if scans_as_intended(&a) && (a.regions.is_empty() || (o.fixed_regions && same_regions)) {
                    alts.push(a.text);
                }
            }
        }
        let meta = if ok {
            json!({
                "prog": {
                    "marks": r.marks.iter().map(|m| json!([m.kind.to_string(), m.key, m.refk, m.delta, m.ordinal])).collect::<Vec<_>>(),
                    "nplain": r.plain.len(),
                    "regions": r.regions,
                    "alts": alts,
                    "decorated": r.inserted,
                    "idents": r.idents,
                }
            })
        } else {
            // the text does not scan to the tokens the generator wrote down (R4: no expectation is derived from it; but the
            // case is counted, and reported where the scanner itself is under test)
            json!({"not_as_intended": true, "intended": r.plain.len()})
        };
        Case { text: r.text, well_formed: ok, label: format!("gen#{pi}/v{vi}:{}", p.start), wrap_hint: None, meta }
    }
}
