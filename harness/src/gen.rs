//! Input generators that live in the harness: token soup (the alphabet is the one declared in spec/Soup.tla and is
//! handed over by the driver), seeds and their truncations / splices, configuration sets, cursor lists.

use crate::obs::*;
use rand::rngs::StdRng;
use rand::{Rng, SeedableRng};
use serde::{Deserialize, Serialize};
use serde_json::Value;

#[derive(Debug, Clone, Serialize, Deserialize)]
pub struct Seed {
    pub name: String,
    pub wrap: u32,
    pub text: String,
}

pub fn load_seeds(path: &str) -> Vec<Seed> {
    std::fs::read_to_string(path)
        .unwrap_or_else(|e| panic!("cannot read seeds {path}: {e}"))
        .lines()
        .filter(|l| !l.trim().is_empty())
        .map(|l| serde_json::from_str(l).expect("seed line"))
        .collect()
}

#[derive(Debug, Clone)]
pub struct Case {
    pub text: String,
    pub well_formed: bool,
    pub label: String,
    /// preferred wrap column (seeds are written for narrow widths)
    pub wrap_hint: Option<u32>,
    /// what the generator knows about the case (expectations travel with the behaviour)
    pub meta: Value,
}

pub trait Suite {
    fn len(&self) -> u64;
    fn get(&self, i: u64) -> Case;
}

// ------------------------------------------------------------------ soup

pub struct Soup {
    pub alphabet: Vec<String>,
    pub len: u32,
    pub seps: Vec<String>,
}

impl Suite for Soup {
    fn len(&self) -> u64 {
        (self.alphabet.len() as u64).pow(self.len) * self.seps.len() as u64
    }
    fn get(&self, i: u64) -> Case {
        let a = self.alphabet.len() as u64;
        let sep = &self.seps[(i % self.seps.len() as u64) as usize];
        let mut k = i / self.seps.len() as u64;
        let mut parts = vec![];
        for _ in 0..self.len {
            parts.push(self.alphabet[(k % a) as usize].as_str());
            k /= a;
        }
        parts.reverse();
        Case {
            text: parts.join(sep),
            well_formed: false,
            label: format!("soup#{i}"),
            wrap_hint: None,
            meta: Value::Null,
        }
    }
}

/// Random longer soup (walks), deterministic in (seed, index).
pub struct SoupWalk {
    pub alphabet: Vec<String>,
    pub min_len: u32,
    pub max_len: u32,
    pub count: u64,
    pub seed: u64,
    /// raw: the alphabet elements are concatenated without separators (character-level text)
    pub raw: bool,
}

impl Suite for SoupWalk {
    fn len(&self) -> u64 {
        self.count
    }
    fn get(&self, i: u64) -> Case {
        let mut rng = StdRng::seed_from_u64(self.seed.wrapping_mul(0x9E3779B97F4A7C15).wrapping_add(i));
        let n = rng.gen_range(self.min_len..=self.max_len);
        let mut text = String::new();
        for k in 0..n {
            if k > 0 && !self.raw {
                text.push_str(match rng.gen_range(0..10) {
                    0 => "\n",
                    1 => "",
                    2 => "\n\n\n",
                    3 => "  ",
                    _ => " ",
                });
            }
            text.push_str(&self.alphabet[rng.gen_range(0..self.alphabet.len())]);
        }
        Case { text, well_formed: false, label: format!("walk#{i}"), wrap_hint: None, meta: Value::Null }
    }
}

// ------------------------------------------------------------------ seeds

pub struct Seeds {
    pub seeds: Vec<Seed>,
}

impl Suite for Seeds {
    fn len(&self) -> u64 {
        self.seeds.len() as u64
    }
    fn get(&self, i: u64) -> Case {
        let s = &self.seeds[i as usize];
        Case { text: s.text.clone(), well_formed: true, label: s.name.clone(), wrap_hint: Some(s.wrap), meta: Value::Null }
    }
}

/// Every seed truncated at every token boundary (and, per `mid`, in the middle of tokens).
pub struct Truncations {
    pub items: Vec<(usize, usize)>,
    pub seeds: Vec<Seed>,
}

impl Truncations {
    pub fn new(seeds: Vec<Seed>, stride: usize) -> Self {
        let mut items = vec![];
        for (si, s) in seeds.iter().enumerate() {
            if let Ok(toks) = lex(&s.text) {
                for (k, t) in toks.iter().enumerate() {
                    if k % stride == 0 && t.end() < s.text.len() {
                        items.push((si, t.end()));
                    }
                }
            }
        }
        Truncations { items, seeds }
    }
}

impl Suite for Truncations {
    fn len(&self) -> u64 {
        self.items.len() as u64
    }
    fn get(&self, i: u64) -> Case {
        let (si, cut) = self.items[i as usize];
        let s = &self.seeds[si];
        Case { text: s.text[..cut].to_string(), well_formed: false, label: format!("{}@{}", s.name, cut), wrap_hint: Some(s.wrap), meta: Value::Null }
    }
}

/// Head of one seed spliced to the tail of another, both cut at token boundaries.
pub struct Splices {
    pub seeds: Vec<Seed>,
    pub count: u64,
    pub seed: u64,
}

impl Suite for Splices {
    fn len(&self) -> u64 {
        self.count
    }
    fn get(&self, i: u64) -> Case {
        let mut rng = StdRng::seed_from_u64(self.seed.wrapping_mul(0x2545F4914F6CDD1D).wrapping_add(i));
        let a = &self.seeds[rng.gen_range(0..self.seeds.len())];
        let b = &self.seeds[rng.gen_range(0..self.seeds.len())];
        let cut = |s: &Seed, rng: &mut StdRng| -> usize {
            match lex(&s.text) {
                Ok(t) if !t.is_empty() => t[rng.gen_range(0..t.len())].end(),
                _ => 0,
            }
        };
        let ca = cut(a, &mut rng);
        let cb = cut(b, &mut rng);
        let mut text = a.text[..ca].to_string();
        text.push(if rng.gen_bool(0.5) { ' ' } else { '\n' });
        text.push_str(&b.text[cb..]);
        Case { text, well_formed: false, label: format!("{}@{}+{}@{}", a.name, ca, b.name, cb), wrap_hint: None, meta: Value::Null }
    }
}

/// A list of texts handed over as data (e.g. printed by TLC).
pub struct Texts {
    pub items: Vec<(String, bool, String, Value)>,
}

impl Suite for Texts {
    fn len(&self) -> u64 {
        self.items.len() as u64
    }
    fn get(&self, i: u64) -> Case {
        let (t, wf, l, m) = &self.items[i as usize];
        Case { text: t.clone(), well_formed: *wf, label: l.clone(), wrap_hint: None, meta: m.clone() }
    }
}

// ------------------------------------------------------------------ configurations

pub fn cfg_from_json(v: &Value) -> Cfg {
    let mut c = Cfg::default();
    if let Some(o) = v.as_object() {
        for (k, val) in o {
            match k.as_str() {
                "wrap_column" => c.wrap_column = val.as_u64().unwrap() as u32,
                "begin_style" => c.begin_style = val.as_str().unwrap().to_string(),
                "format_multiline_strings" => c.format_multiline_strings = val.as_bool().unwrap(),
                "use_tabs" => c.use_tabs = val.as_bool().unwrap(),
                "tab_width" => c.tab_width = val.as_u64().unwrap() as u8,
                "continuation_indents" => c.continuation_indents = val.as_u64().unwrap() as u8,
                "line_ending" => c.line_ending = val.as_str().unwrap().to_string(),
                _ => panic!("unknown cfg key {k}"),
            }
        }
    }
    c
}

/// A pairwise-style covering set of configurations (deterministic).
pub fn cfg_set(name: &str) -> Vec<Cfg> {
    let d = Cfg::default();
    let mk = |w: u32, b: &str, f: bool, t: bool, tw: u8, ci: u8, le: &str| Cfg {
        wrap_column: w,
        begin_style: b.into(),
        format_multiline_strings: f,
        use_tabs: t,
        tab_width: tw,
        continuation_indents: ci,
        line_ending: le.into(),
    };
    match name {
        "default" => vec![d],
        "narrow" => vec![mk(30, "auto", true, false, 2, 2, "lf")],
        "two" => vec![d, mk(30, "always_wrap", true, false, 2, 2, "lf")],
        "six" => vec![
            d.clone(),
            mk(30, "auto", true, false, 2, 2, "lf"),
            mk(40, "always_wrap", false, true, 4, 1, "crlf"),
            mk(80, "auto", true, false, 4, 1, "crlf"),
            mk(20, "always_wrap", true, false, 3, 0, "lf"),
            mk(u32::MAX, "auto", false, true, 2, 3, "lf"),
        ],
        "wide" => {
            let mut v = cfg_set("six");
            v.extend([
                mk(0, "auto", true, false, 2, 2, "lf"),
                mk(1, "always_wrap", true, true, 1, 1, "crlf"),
                mk(10, "auto", true, false, 1, 4, "lf"),
                mk(200, "always_wrap", true, false, 8, 2, "crlf"),
                mk(120, "auto", true, false, 0, 2, "lf"),
                mk(60, "auto", false, false, 2, 0, "lf"),
                mk(30, "auto", true, true, 2, 2, "crlf"),
                mk(50, "always_wrap", true, false, 16, 3, "lf"),
                mk(100, "auto", true, false, 5, 2, "lf"),
                mk(25, "always_wrap", false, false, 2, 4, "crlf"),
                mk(35, "auto", true, true, 255, 255, "lf"),
                mk(45, "auto", true, false, 15, 17, "lf"),
                // the continuation is wider than the line (and the width is no multiple of the unit)
                mk(20, "auto", true, false, 8, 3, "lf"),
                mk(30, "always_wrap", true, false, 7, 5, "crlf"),
                mk(13, "auto", false, false, 6, 4, "lf"),
            ]);
            v
        }
        // unit x continuation products at and beyond the 8-bit range (spaces: the product is a column count)
        "overflow" => vec![
            mk(100, "auto", true, false, 16, 16, "lf"),
            mk(80, "always_wrap", true, false, 8, 40, "lf"),
            mk(120, "auto", false, false, 255, 255, "crlf"),
            mk(60, "auto", true, false, 128, 2, "lf"),
            mk(60, "auto", true, false, 2, 128, "lf"),
            mk(u32::MAX, "auto", true, false, 17, 15, "lf"),
            mk(0, "auto", true, false, 255, 2, "lf"),
        ],
        _ => panic!("unknown cfg set {name}"),
    }
}

// ------------------------------------------------------------------ cursors

/// Cursor offsets worth trying for an input: token starts and ends, inside blanks, inside multi-line tokens, ends.
pub fn cursor_offsets(text: &str, toks: &[Tok], limit: usize) -> Vec<u32> {
    let mut v: Vec<usize> = vec![0, text.len(), text.len() + 1, text.len() + 7, u32::MAX as usize];
    for t in toks {
        v.push(t.start);
        v.push(t.content_start());
        v.push(t.end());
        if t.ws_len > 1 {
            v.push(t.start + 1);
            v.push(t.start + t.ws_len / 2);
            v.push(t.start + t.ws_len - 1);
        }
        if t.len > 1 {
            v.push(t.content_start() + 1);
            v.push(t.content_start() + t.len / 2);
            v.push(t.end() - 1);
        }
        if t.len > 6 && (t.kind.contains("MultiLine") || t.kind.contains("Multiline")) {
            let tx = t.text(text);
            for (p, _) in tx.match_indices('\n') {
                v.push(t.content_start() + p);
                v.push(t.content_start() + p + 1);
                v.push(t.content_start() + p + 2);
            }
        }
    }
    v.retain(|&o| o > text.len() || text.is_char_boundary(o));
    v.sort_unstable();
    v.dedup();
    if v.len() > limit {
        let step = v.len() as f64 / limit as f64;
        let mut w: Vec<usize> = (0..limit).map(|k| v[(k as f64 * step) as usize]).collect();
        w.extend_from_slice(&v[v.len() - 4..]);
        w.sort_unstable();
        w.dedup();
        v = w;
    }
    v.into_iter().map(|o| o.min(u32::MAX as usize) as u32).collect()
}

// ------------------------------------------------------------------ C13: the length / remaining / delimiter grid

/// word kind x length x bytes remaining after the word x offset of leading code x delimiter.
/// The generator knows where the word starts and ends and what it must be.
pub struct Grid {
    pub kinds: Vec<String>,
    pub lens: Vec<usize>,
    pub rems: Vec<usize>,
    pub offsets: Vec<usize>,
    pub delims: Vec<String>,
    pub tails: Vec<String>,
}

const IDENT_CHARS: &[u8] = b"abcdefghijklmnopqrstuvwxyzABCDEFGHIJKLMNOPQRSTUVWXYZ0123456789_";

pub fn grid_word(kind: &str, len: usize) -> Option<(String, &'static str)> {
    // returns (word, expected kind); None if the kind has no word of that length
    let pat = |set: &[u8], n: usize, salt: usize| -> String { (0..n).map(|i| set[(i * 7 + salt * 13 + n) % set.len()] as char).collect() };
    match kind {
        "ident" => {
            let mut w = String::from("q");
            w.push_str(&pat(IDENT_CHARS, len.saturating_sub(1), 1));
            if len == 0 { return None; }
            if crate::mon::is_keyword_word(&w) { w.replace_range(0..1, "Q_"); w.truncate(len.max(2)); }
            Some((w, "Identifier"))
        }
        "ident_" => {
            if len == 0 { return None; }
            let mut w = String::from("_");
            w.push_str(&pat(IDENT_CHARS, len - 1, 2));
            Some((w, "Identifier"))
        }
        "uident" => {
            // identifier with non-ASCII characters (2-, 3- and 4-byte) spread through it; len counts code points
            if len == 0 { return None; }
            let mut w = String::new();
            for i in 0..len {
                w.push(match (i + len) % 11 { 3 => 'é', 6 => '変', 9 => '😃', k => IDENT_CHARS[(i * 5 + k) % 52] as char });
            }
            if !w.chars().next().unwrap().is_alphabetic() || w.is_ascii() && crate::mon::is_keyword_word(&w) { w.insert(0, 'z'); }
            Some((w, "Identifier"))
        }
        "keyword" => {
            let kw = ["as", "end", "type", "begin", "record", "finally", "function", "procedure", "destructor", "constructor", "finalization", "dispinterface", "implementation"];
            kw.iter().find(|k| k.len() == len).map(|k| {
                let w: String = k.chars().enumerate().map(|(i, c)| if (i + len) % 2 == 0 { c.to_ascii_uppercase() } else { c }).collect();
                (w, "KEYWORD")
            })
        }
        "kwsuffix" => {
            if len < 6 { return None; }
            let mut w = String::from("begin");
            w.push_str(&pat(IDENT_CHARS, len - 5, 3));
            Some((w, "Identifier"))
        }
        "digits" => {
            // digits only (no separators): the width of a scanner that tests several bytes at once
            if len == 0 { return None; }
            Some((pat(b"0123456789", len, 7), "NumberLiteral(Decimal)"))
        }
        "hexdigits" => {
            if len < 2 { return None; }
            let mut w = String::from("$");
            w.push_str(&pat(b"0123456789ABCDEFabcdef", len - 1, 8));
            Some((w, "NumberLiteral(Hex)"))
        }
        "decimal" => {
            if len == 0 { return None; }
            let mut w = String::from("7");
            w.push_str(&pat(b"0123456789_", len - 1, 4));
            Some((w, "NumberLiteral(Decimal)"))
        }
        "hex" => {
            if len < 2 { return None; }
            let mut w = String::from("$");
            w.push_str(&pat(b"0123456789abcdefABCDEF_", len - 1, 5));
            Some((w, "NumberLiteral(Hex)"))
        }
        "binary" => {
            if len < 2 { return None; }
            let mut w = String::from("%");
            w.push_str(&pat(b"01_", len - 1, 6));
            Some((w, "NumberLiteral(Binary)"))
        }
        _ => None,
    }
}

impl Suite for Grid {
    fn len(&self) -> u64 {
        (self.kinds.len() * self.lens.len() * self.rems.len() * self.offsets.len() * self.delims.len() * self.tails.len()) as u64
    }
    fn get(&self, i: u64) -> Case {
        let mut k = i as usize;
        let mut pick = |n: usize| { let r = k % n; k /= n; r };
        let tail_kind = &self.tails[pick(self.tails.len())];
        let delim = &self.delims[pick(self.delims.len())];
        let off = self.offsets[pick(self.offsets.len())];
        let rem = self.rems[pick(self.rems.len())];
        let len = self.lens[pick(self.lens.len())];
        let kind = &self.kinds[pick(self.kinds.len())];
        let Some((word, expect)) = grid_word(kind, len) else {
            return Case { text: String::new(), well_formed: false, label: format!("grid#{i}:skip"), wrap_hint: None, meta: Value::Null };
        };
        // leading code of exactly `off` bytes, ending in a separator
        let lead_src = "x := y + 1; ";
        let mut text: String = lead_src.chars().cycle().take(off.saturating_sub(1)).collect();
        if off > 0 {
            text.push(' ');
        }
        let start = text.len();
        text.push_str(&word);
        let end = text.len();
        // the tail: delimiter first, then filler up to `rem` bytes after the word
        let mut tail = String::new();
        if rem > 0 {
            tail.push_str(delim);
            let filler: &str = match tail_kind.as_str() { "spaces" => " ", "code" => "; y := 1 ", "nonascii" => "é ", _ => " " };
            let mut it = filler.chars().cycle();
            while tail.len() < rem {
                tail.push(it.next().unwrap());
            }
        }
        text.push_str(&tail);
        // numbers: a delimiter that continues the literal makes the expectation void
        let d0 = tail.chars().next();
        let continues = match (*kind).as_str() {
            "decimal" | "digits" => matches!(d0, Some('.' | 'e' | 'E' | '_' | '0'..='9')),
            "hexdigits" => matches!(d0, Some('0'..='9' | 'a'..='f' | 'A'..='F' | '_')),
            "hex" => matches!(d0, Some('0'..='9' | 'a'..='f' | 'A'..='F' | '_')),
            "binary" => matches!(d0, Some('0' | '1' | '_')),
            _ => d0.is_some_and(|c| c.is_ascii_alphanumeric() || c == '_' || (c as u32 >= 128 && c != '\u{3000}')),
        };
        let meta = if continues { Value::Null } else { serde_json::json!({"grid": {"start": start, "end": end, "kind": expect, "wordkind": kind}}) };
        Case { text, well_formed: false, label: format!("grid#{i}:{kind}:len{len}:rem{rem}:off{off}"), wrap_hint: None, meta }
    }
}

// ------------------------------------------------------------------ C04: scaled conditional-directive shapes

/// k sequential / nested conditional blocks wrapping partial statements; bracket and argument stress shapes.
pub struct Scaled {
    pub max_k: u32,
}
pub const SCALED_SHAPES: u64 = 18;

impl Suite for Scaled {
    fn len(&self) -> u64 {
        self.max_k as u64 * SCALED_SHAPES
    }
    fn get(&self, i: u64) -> Case {
        let k = (i / SCALED_SHAPES + 1) as usize;
        let shape = i % SCALED_SHAPES;
        let mut t = String::new();
        match shape {
            0 => {
                // sequential if/else/endif blocks, each splitting a statement
                t.push_str("begin\n");
                for j in 0..k {
                    t.push_str(&format!("  X{j} := {{$ifdef A{j}}} Foo({j}) {{$else}} Bar({j}, {{$endif}} 1);\n"));
                }
                t.push_str("end;\n");
            }
            1 => {
                // nested
                for j in 0..k {
                    t.push_str(&format!("{{$ifdef A{j}}} if X{j} then begin\n"));
                }
                t.push_str("Foo;\n");
                for j in 0..k {
                    t.push_str(&format!("end; {{$else}} Bar{j}; {{$endif}}\n"));
                }
            }
            2 => {
                // elseif chains
                for j in 0..k {
                    t.push_str(&format!("{{$if X{j}}} procedure P{j}; {{$elseif Y{j}}} function P{j}: Integer; {{$else}} var P{j}: Integer; {{$ifend}}\n"));
                }
            }
            3 => {
                // unbalanced: only openers
                for j in 0..k {
                    t.push_str(&format!("{{$ifdef A{j}}} begin Foo({j});\n"));
                }
            }
            4 => {
                // unbalanced: only else / endif
                for j in 0..k {
                    t.push_str(&format!("{{$else}} end; {{$endif}} x{j} := 1;\n"));
                }
            }
            5 => {
                // deep brackets
                t.push_str("x := ");
                for _ in 0..k {
                    t.push_str("Foo(");
                }
                t.push('1');
                for _ in 0..k {
                    t.push_str(", 2)");
                }
                t.push_str(";\n");
            }
            6 => {
                // long argument list and long expression at a narrow width
                t.push_str("Call(");
                for j in 0..k * 3 {
                    t.push_str(&format!("Arg{j} + {j} * Other{j}, "));
                }
                t.push_str("Last);\n");
            }
            8 => {
                // a multi-line literal k blocks deep
                for j in 0..k {
                    t.push_str(&format!("{}begin\n", " ".repeat(j)));
                }
                t.push_str("X := \'\'\'\n   first line\n     second\n\n   \'\'\' + Y;\n");
                t.push_str("Foo(\'\'\'\n a\n \'\'\', 2);\n");
                for j in (0..k).rev() {
                    t.push_str(&format!("{}end;\n", " ".repeat(j)));
                }
            }
            10 => {
                // ONE conditional section with 2k alternatives: every alternative's code must be parsed by some pass
                t.push_str("{$if V = 0}\nprocedure P0 ;\n");
                for j in 1..2 * k {
                    t.push_str(&format!("{{$elseif V = {j}}}\nprocedure   P{j} ( a:Integer ) ;\n"));
                }
                t.push_str("{$else}\nprocedure Last ;\n{$ifend}\nbegin\nend;\n");
            }
            11 => {
                // the same as an else / ifdef ladder, k deep
                for j in 0..k {
                    t.push_str(&format!("{{$ifdef V{j}}}\nconst C = {j} ;\n{{$else}}\n"));
                }
                t.push_str("const C = -1 ;\n");
                for _ in 0..k {
                    t.push_str("{$endif}\n");
                }
            }
            12 => {
                // one control statement whose block holds 100 k statements, two per source line
                let n = 100 * k;
                t.push_str("procedure P;\nbegin\n  with Obj do begin");
                for j in 0..n {
                    t.push_str(if j % 2 == 0 { "\n   " } else { " " });
                    t.push_str(&format!("Item{j} := {j};"));
                }
                t.push_str(" end;\n  Done;\nend;\n");
                // marks: every statement of the block on its own line two units deep, the closer one unit deep
                // plain tokens: procedure P ; begin with Obj do begin  => 8, then 4 per statement
                let mut marks = vec![serde_json::json!(["R", 500, 0, 0, 4])];
                for j in 0..n {
                    marks.push(serde_json::json!(["S", 1000 + j, 500, 1, 8 + 4 * j]));
                }
                marks.push(serde_json::json!(["C", 1, 500, 0, 8 + 4 * n]));
                let meta = serde_json::json!({"prog": {"marks": marks, "nplain": 8 + 4 * n + 6, "regions": [], "alts": [], "decorated": 0, "idents": []}});
                return Case { text: t, well_formed: true, label: format!("scaled:shape{shape}:k{k}"), wrap_hint: None, meta };
            }
            16 => {
                // ONE logical line with thousands of tokens: an array constant of 100 k elements, one per line; the
                // re-layout has them all on one line
                let n = 100 * k;
                let elems: Vec<String> = (0..n).map(|j| format!("{j}")).collect();
                let a = format!("const\n  Table: array[0..{}] of Integer = (\n    {}\n  );\n", n - 1, elems.join(",\n    "));
                let b = format!("const Table : array [ 0 .. {} ] of Integer = ( {} ) ;\n", n - 1, elems.join(" , "));
                let meta = serde_json::json!({"prog": {"marks": [], "nplain": 0, "regions": [], "alts": [b], "decorated": 0, "idents": []}});
                return Case { text: a, well_formed: true, label: format!("scaled:shape{shape}:k{k}"), wrap_hint: None, meta };
            }
            17 => {
                // one long logical line (2k + arguments) with a conditional section in its middle whose alternatives have the
                // same number of tokens: the lines of the two passes differ only far from both ends
                t.push_str("Bar(");
                for j in 0..k {
                    t.push_str(&format!("A{j}, "));
                }
                t.push_str("{$IFDEF X}Left(1){$ELSE}Right(2){$ENDIF}");
                for j in 0..k {
                    t.push_str(&format!(", B{j}"));
                }
                t.push_str(");\n");
            }
            13 => {
                // k nested expression directives, none of them closed (the scanner must not re-scan the tail once per level)
                t.push_str("x := 1; ");
                for j in 0..2 * k {
                    t.push_str(if j % 7 == 3 { "{$elseif B " } else { "{$if A " });
                }
            }
            14 => {
                // the same in the (*$ form, and alternating forms, with strings and comments between them
                t.push_str("x := 1; ");
                for j in 0..2 * k {
                    t.push_str(["(*$if A ", "{$if 'x' ", "(*$if {c ", "{$if (*c "][j % 4]);
                }
            }
            15 => {
                // k nested expression directives, all closed, and k unterminated literals / comments after them
                t.push_str("x := 1; ");
                for _ in 0..2 * k {
                    t.push_str("{$if A ");
                }
                for _ in 0..2 * k {
                    t.push_str("} ");
                }
                t.push_str("\ny := 2;\n");
                for j in 0..k {
                    t.push_str(["'abc\n", "{$ifdef X\n", "(* c\n"][j % 3]);
                }
            }
            9 => {
                // nested records k deep with a field and a literal default
                t.push_str("type\n");
                for j in 0..k.min(30) {
                    t.push_str(&format!("T{j} = record F{j}: Integer;\n"));
                }
                t.push_str("Inner: string;\n");
                for _ in 0..k.min(30) {
                    t.push_str("end;\n");
                }
            }
            _ => {
                // nested anonymous routines
                t.push_str("x := ");
                for j in 0..k.min(12) {
                    t.push_str(&format!("procedure begin Foo{j}(", ));
                }
                t.push('1');
                for _ in 0..k.min(12) {
                    t.push_str("); end");
                }
                t.push_str(";\n");
            }
        }
        Case { text: t, well_formed: false, label: format!("scaled:shape{shape}:k{k}"), wrap_hint: None, meta: Value::Null }
    }
}

// ------------------------------------------------------------------ C07: asm bodies

/// Routines and statements with `asm ... end` bodies; the instruction lines (from the line break after `asm` to the end
/// of the last instruction line) must be reproduced byte for byte.
pub struct Asm {
    pub count: u64,
    pub seed: u64,
}

const ASM_LINES: [&str; 28] = [
    "  mov   eax,  1", "@L1:   add eax,ebx", "    push ebx;  pop  ebx", "  mov al, 'a'", "  db \"str\\\"ing\" , 0",
    "  mov eax,{$ifdef CPUX64}1   {$else}2{$endif}", "  jmp  @@end_label", "  mov eax, [ebx+4*ecx]  // comment", "  {comment}   nop",
    "\tRET", "  mov eax, 0FFh", "  and eax, 1010b", "  call   System.@HandleFinally", "  MOV  ECX , [EAX].TFoo.Bar", "   lea  rax,[rip+Value]",
    "  fld   qword ptr [esp]", "  db 0,1 , 2,3", "@@end_label:", "  mov &end1, 1", "  mov ax, 17o ; inc   ax", "    xor\teax,\teax", "  test al, $80",
    // conditional directives inside an instruction, followed by more of the instruction (kept verbatim; at the very end of the line: F16)
    "  mov   eax,{$ifdef CPUX64}1   {$else}2{$endif}  ;nop", "  mov {$ifdef X}eax{$else}ebx{$endif},  1", "  mov eax, {$ifdef X} 1 {$endif} ; x", "  add   ecx,{$ifopt R+}4{$else}8{$endif},  eax",
    // an instruction that is ended by `;` (when it is the last one, the line of the closing `end` starts empty)
    "  mov  eax, 1;", "  nop ;",
];

impl Suite for Asm {
    fn len(&self) -> u64 {
        self.count
    }
    fn get(&self, i: u64) -> Case {
        let mut rng = StdRng::seed_from_u64(self.seed.wrapping_mul(0x9E3779B97F4A7C15).wrapping_add(i));
        let nblocks = rng.gen_range(1..3);
        // two renderings of the same tokens: `text` and `alt` differ only in the blanks outside the instruction lines
        let mut text = String::new();
        let mut alt = String::new();
        let mut regions = vec![];
        let crlf = rng.gen_range(0..5) == 0;
        let nl = if crlf { "\r\n" } else { "\n" };
        for b in 0..nblocks {
            let form = rng.gen_range(0..4);
            // the keywords are case-insensitive
            let asm_kw = ["asm", "asm", "ASM", "Asm"][rng.gen_range(0..4)];
            let end_kw = ["end", "end", "End", "END"][rng.gen_range(0..4)];
            match form {
                0 => {
                    text.push_str(&format!("procedure P{b};{nl}{asm_kw}"));
                    alt.push_str(&format!("procedure   P{b} ; {asm_kw}"));
                }
                1 => {
                    text.push_str(&format!("function F{b}(A: Integer): Integer;   assembler;{nl}  {asm_kw}"));
                    alt.push_str(&format!("function F{b} ( A:Integer ) :Integer ; assembler ;{nl}{nl}{asm_kw}").replace(&format!("{nl}{nl}"), nl));
                }
                2 => {
                    text.push_str(&format!("procedure Q{b};{nl}begin{nl}  X:=1;{nl}    {asm_kw}"));
                    alt.push_str(&format!("procedure Q{b} ;  begin X := 1 ;{nl}{asm_kw}"));
                }
                _ => {
                    text.push_str(&format!("procedure R{b};{nl}var I:Integer;{nl}begin if A then{nl}{asm_kw}"));
                    alt.push_str(&format!("procedure R{b};  var I : Integer ;{nl}begin{nl}if A{nl}then   {asm_kw}"));
                }
            }
            let start = text.len();
            // (now and then an empty body)
            let k = if rng.gen_range(0..12) == 0 { 0 } else { rng.gen_range(1..7) };
            let mut body = String::new();
            // now and then a toggle region is open inside the body and ends (or starts) in the middle of an instruction line:
            // the instruction lines are verbatim anyway
            let toggles = rng.gen_range(0..4) == 0;
            for j in 0..k {
                body.push_str(nl);
                if rng.gen_range(0..8) == 0 {
                    body.push_str(nl); // a blank line between instructions
                }
                if toggles && j == 0 {
                    body.push_str(["  {pasfmt off} mov   eax,  ebx", "  // pasfmt off", "  mov  eax,1 {pasfmt off}"][rng.gen_range(0..3)]);
                    body.push_str(nl);
                }
                if toggles && j == k - 1 {
                    body.push_str(["  {pasfmt on} ", "  (* pasfmt on *)   ", "{pasfmt on}"][rng.gen_range(0..3)]);
                    body.push_str(ASM_LINES[rng.gen_range(0..ASM_LINES.len())].trim_start());
                    continue;
                }
                body.push_str(ASM_LINES[rng.gen_range(0..ASM_LINES.len())]);
            }
            text.push_str(&body);
            alt.push_str(&body);
            regions.push((start, text.len(), false));
            match form {
                0 | 1 => {
                    text.push_str(&format!("{nl}{end_kw};{nl}"));
                    alt.push_str(&format!("{nl}      {end_kw}  ;{nl}"));
                }
                2 => {
                    text.push_str(&format!("{nl}   {end_kw} ;{nl}  Y:=2;{nl}end;{nl}"));
                    alt.push_str(&format!("{nl}{end_kw};Y := 2 ; end ;{nl}"));
                }
                _ => {
                    text.push_str(&format!("{nl}{end_kw};{nl}end;{nl}"));
                    alt.push_str(&format!("{nl} {end_kw} ;   end{nl};{nl}"));
                }
            }
        }
        let meta = serde_json::json!({"prog": {"marks": [], "nplain": 0, "regions": regions, "alts": [alt], "decorated": 0, "idents": []}});
        Case { text, well_formed: true, label: format!("asm#{i}"), wrap_hint: None, meta }
    }
}

// ------------------------------------------------------------------ C13: delimited tokens (literals, comments, directives)

/// delimited token kind x body length x multi-byte character x its byte position x termination.
/// The generator knows where the token starts and ends.
pub struct Delims {
    pub kinds: Vec<String>,
    pub lens: Vec<usize>,
    pub mbs: Vec<String>,
    pub positions: Vec<usize>,
    pub terms: Vec<String>,
}

impl Suite for Delims {
    fn len(&self) -> u64 {
        (self.kinds.len() * self.lens.len() * self.mbs.len() * self.positions.len() * self.terms.len()) as u64
    }
    fn get(&self, i: u64) -> Case {
        let mut k = i as usize;
        let mut pick = |n: usize| { let r = k % n; k /= n; r };
        let term = &self.terms[pick(self.terms.len())];
        let pos = self.positions[pick(self.positions.len())];
        let mb = &self.mbs[pick(self.mbs.len())];
        let len = self.lens[pick(self.lens.len())];
        let kind = &self.kinds[pick(self.kinds.len())];
        let skip = || Case { text: String::new(), well_formed: false, label: format!("delims#{i}:skip"), wrap_hint: None, meta: Value::Null };
        let (open, close, expect): (&str, &str, &str) = match kind.as_str() {
            "str" => ("'", "'", if term == "closed" { "TextLiteral(SingleLine)" } else { "TextLiteral(Unterminated)" }),
            "brace" => ("{", "}", "Comment("),
            "paren" => ("(*", "*)", "Comment("),
            "line" => ("//", "", "Comment("),
            "dir" => ("{$region ", "}", "CompilerDirective"),
            "pdir" => ("(*$region ", "*)", "CompilerDirective"),
            "ifdir" => ("{$if ", "}", "ConditionalDirective(If)"),
            "mlstr" => ("'''\n", "\n'''", if term == "closed" { "TextLiteral(MultiLine)" } else { "" }),
            _ => return skip(),
        };
        // only literals end at the end of the line; a line comment has no closed form
        let applicable = match (kind.as_str(), term.as_str()) {
            ("line", "closed") => false,
            ("line", _) => true,
            (k, "eol") => k == "str",
            _ => true,
        };
        if !applicable {
            return skip();
        }
        // body: `len` bytes of filler with the multi-byte character starting at byte `pos` of the token
        let mut body = String::new();
        let filler = b"abcdefghij klmnopqrst";
        let mut n = 0usize;
        while body.len() < len {
            if !mb.is_empty() && open.len() + body.len() == pos {
                body.push_str(mb);
            } else {
                body.push(filler[n % filler.len()] as char);
                n += 1;
            }
        }
        if !mb.is_empty() && pos >= open.len() + len {
            return skip();
        }
        let body = body.trim_end().to_string();
        let lead = "x := ";
        let mut text = String::from(lead);
        let start = text.len();
        text.push_str(open);
        text.push_str(&body);
        let end;
        match term.as_str() {
            "closed" => {
                text.push_str(close);
                end = text.len();
                text.push_str(";\nFoo;\n");
            }
            "eol" => {
                end = text.len();
                text.push_str("\nFoo;\n");
            }
            _ => {
                if kind == "line" {
                    end = text.len();
                } else {
                    // unterminated at the end of the file: more lines follow inside the token
                    text.push_str("\nFoo; zzz");
                    end = text.len();
                }
            }
        }
        // an unterminated literal in front of the rest of the line: the rest belongs to it
        let meta = if kind == "str" && term == "eof" {
            Value::Null
        } else {
            serde_json::json!({"grid": {"start": start, "end": end, "kind": expect, "wordkind": "delim"}})
        };
        Case { text, well_formed: false, label: format!("delims#{i}:{kind}:len{len}:mb{}@{pos}:{term}", mb.len()), wrap_hint: None, meta }
    }
}

// ------------------------------------------------------------------ C13: nested expression directives

/// Random expression directives ({$if ..} / (*$elseif ..*)) whose expression holds strings, comments of both kinds, line
/// comments and nested directives of both kinds, each hiding closers of the OTHER constructs. By construction the outer
/// directive is one token spanning the whole constructed text.
pub struct DirNest {
    pub count: u64,
    pub seed: u64,
}

fn dirnest_expr(rng: &mut StdRng, brace: bool, depth: u32, out: &mut String) {
    let n = rng.gen_range(1..=4);
    let hidden = ["}", "*)", "{", "(*", "//", "{$if", "(*$if", " ", "x", "*", ")", "$"];
    for k in 0..n {
        if k > 0 {
            out.push(' ');
        }
        let mut junk = |rng: &mut StdRng, forbid: &[&str], out: &mut String| {
            for _ in 0..rng.gen_range(0..4) {
                let h = hidden[rng.gen_range(0..hidden.len())];
                if forbid.iter().any(|f| h.contains(f) || (out.to_string() + h).contains(f)) {
                    out.push('y');
                } else {
                    out.push_str(h);
                }
            }
        };
        match rng.gen_range(0..10) {
            0 | 1 => out.push_str(["A", "B > 0", "defined(X)", "not C", "CompilerVersion >= 21.0", "and"][rng.gen_range(0..6)]),
            2 => {
                out.push('\'');
                let mut s = String::from("q");
                junk(rng, &["'"], &mut s);
                out.push_str(&s);
                out.push('\'');
            }
            3 => {
                out.push('{');
                let mut s = String::from("c");
                junk(rng, &["}"], &mut s);
                out.push_str(&s);
                out.push('}');
            }
            4 => {
                out.push_str("(*");
                let mut s = String::from("c");
                junk(rng, &["*)"], &mut s);
                // `*` + `)` must not meet across the end of the body
                if s.ends_with('*') {
                    s.push('y');
                }
                out.push_str(&s);
                out.push_str("*)");
            }
            5 => {
                out.push_str("//");
                let mut s = String::from(" c");
                junk(rng, &["\n"], &mut s);
                out.push_str(&s);
                out.push('\n');
            }
            6 | 7 if depth < 3 => {
                let inner_brace = rng.gen_bool(0.5);
                out.push_str(if inner_brace { "{$" } else { "(*$" });
                out.push_str(["if ", "IF ", "elseif ", "ElseIf "][rng.gen_range(0..4)]);
                dirnest_expr(rng, inner_brace, depth + 1, out);
                out.push_str(if inner_brace { "}" } else { " *)" });
            }
            8 => {
                // a nested directive that is not an expression: it ends at the first closer of its own kind
                let inner_brace = rng.gen_bool(0.5);
                out.push_str(if inner_brace { "{$" } else { "(*$" });
                out.push_str(["ifdef ", "I ", "define ", "ifopt ", "endif ", "else "][rng.gen_range(0..6)]);
                let mut s = String::from("N");
                junk(rng, &[if inner_brace { "}" } else { "*)" }], &mut s);
                if !inner_brace && s.ends_with('*') {
                    s.push('y');
                }
                out.push_str(&s);
                out.push_str(if inner_brace { "}" } else { "*)" });
            }
            _ => out.push_str(["X", "1", "Foo.Bar", "<>", "(A or B)"][rng.gen_range(0..5)]),
        }
    }
    let _ = brace;
}

impl Suite for DirNest {
    fn len(&self) -> u64 {
        self.count
    }
    fn get(&self, i: u64) -> Case {
        let mut rng = StdRng::seed_from_u64(self.seed.wrapping_mul(0xD1B54A32D192ED03).wrapping_add(i));
        let brace = rng.gen_bool(0.5);
        let lead = ["", "Foo;\n", "x := 1; "][rng.gen_range(0..3)];
        let mut text = String::from(lead);
        let start = text.len();
        text.push_str(if brace { "{$" } else { "(*$" });
        let elseif = rng.gen_bool(0.3);
        text.push_str(if elseif { "elseif " } else { "if " });
        dirnest_expr(&mut rng, brace, 0, &mut text);
        text.push_str(if brace { "}" } else { " *)" });
        let end = text.len();
        text.push_str(" Bar;\n");
        let kind = if elseif { "ConditionalDirective(Elseif)" } else { "ConditionalDirective(If)" };
        Case { text, well_formed: false, label: format!("dirnest#{i}"), wrap_hint: None, meta: serde_json::json!({"grid": {"start": start, "end": end, "kind": kind, "wordkind": "delim"}}) }
    }
}

// ------------------------------------------------------------------ C03 / C11 / C12: several multi-line literals in one statement

/// One statement holding two or three multi-line literals; container x suffix after each literal x how far each literal's
/// interior (and closing quotes) is shifted away from where the formatter puts it (0 = already in place).
/// The base text is a fixed point of the formatter at the default width; every variant differs from it only in the
/// indentation inside literals, so all variants have the same formatted result as the base at every width.
pub struct MlShapes {
    pub max: u64,
}

const ML_CONTAINERS: [(&str, &str, &str, &str); 7] = [
    // the statement BEGINS with a literal
    ("", ".Concat(", ", ", ");"),
    ("", " + ", ".Split([','], 2, 3) + ", ";"),
    ("Bar(", ", ", ", ", ");"),
    ("X := ", " + ", " + ", ";"),
    ("Bar(Baz(", "), ", ", ", ", 3);"),
    ("Result := Format(", ", [", ", ", "]);"),
    ("if Check(", ") and Other(", ") or Last(", ") then Exit;"),
];
const ML_SUFFIXES: [&str; 4] = ["", ".format(aaaaaaaa, b)", ".Trim", " + Foo(1, 2) + Another(3)"];
/// 1000: the first interior line is indented LESS than the closing quotes (the literal cannot be re-indented)
/// 2000: text in front of the closing quotes (the literal is skipped by the re-indentation)
const ML_SHIFTS: [i32; 7] = [0, 44, 3, -2, 90, 1000, 2000];

impl MlShapes {
    fn dims(i: u64) -> (usize, usize, Vec<usize>, Vec<usize>) {
        // container, number of literals, suffix per literal, shift per literal
        let mut k = i as usize;
        let mut pick = |n: usize| { let r = k % n; k /= n; r };
        let cont = pick(ML_CONTAINERS.len());
        let n = 2 + pick(2);
        let shifts: Vec<usize> = (0..n).map(|_| pick(ML_SHIFTS.len())).collect();
        let sufs: Vec<usize> = (0..n).map(|_| pick(ML_SUFFIXES.len())).collect();
        (cont, n, sufs, shifts)
    }
}

impl Suite for MlShapes {
    fn len(&self) -> u64 {
        let full = (ML_CONTAINERS.len() * 2 * ML_SHIFTS.len().pow(3) * ML_SUFFIXES.len().pow(3)) as u64;
        full.min(self.max)
    }
    fn get(&self, i: u64) -> Case {
        // spread the index over the whole product when the suite is capped
        let full = (ML_CONTAINERS.len() * 2 * ML_SHIFTS.len().pow(3) * ML_SUFFIXES.len().pow(3)) as u64;
        let idx = if self.max < full { i.wrapping_mul(2654435761) % full } else { i };
        let (cont, n, sufs, shifts) = MlShapes::dims(idx);
        let c = ML_CONTAINERS[cont];
        let skip = |why: &str| Case { text: String::new(), well_formed: false, label: format!("mlshapes#{i}:skip:{why}"), wrap_hint: None, meta: Value::Null };
        let mut stmt = String::from(c.0);
        for k in 0..n {
            if k == 1 {
                stmt.push_str(c.1);
            } else if k == 2 {
                stmt.push_str(c.2);
            }
            stmt.push_str(&format!("'''\n      line {k} of the literal\n        and a deeper one\n      '''"));
            stmt.push_str(ML_SUFFIXES[sufs[k]]);
        }
        stmt.push_str(c.3);
        let base_src = format!("procedure Foo;\nbegin\n  {stmt}\nend;\n");
        let cfg = Cfg::default();
        let Ok(base) = crate::obs::run(&base_src, &cfg, &[], false).out else { return skip("panic") };
        match crate::obs::run(&base, &cfg, &[], false).out {
            Ok(again) if again == base => {}
            _ => return skip("base_not_a_fixed_point"),
        }
        // shift the interior and closing lines of each literal
        let Ok(toks) = crate::obs::lex(&base) else { return skip("lex") };
        let lits: Vec<&Tok> = toks.iter().filter(|t| t.kind == "TextLiteral(MultiLine)").collect();
        if lits.len() != n {
            return skip("literal_count");
        }
        let mut text = String::new();
        let mut pos = 0usize;
        for (k, t) in lits.iter().enumerate() {
            let (s, e) = (t.content_start(), t.end());
            text.push_str(&base[pos..s]);
            let lit = &base[s..e];
            let shift = ML_SHIFTS[shifts[k]];
            let mut first = true;
            let mut lineno = 0;
            for line in lit.split('\n') {
                if first {
                    text.push_str(line);
                    first = false;
                    continue;
                }
                lineno += 1;
                text.push('\n');
                if shift == 1000 {
                    let cut = line.len() - line.trim_start_matches(' ').len();
                    text.push_str(if lineno == 1 { &line[cut.min(2)..] } else { line });
                } else if shift == 2000 {
                    if line.trim_start().starts_with("\'\'\'") {
                        let cut = line.len() - line.trim_start_matches(' ').len();
                        text.push_str(&line[..cut]);
                        text.push('b');
                        text.push_str(&line[cut..]);
                    } else {
                        text.push_str(line);
                    }
                } else if shift >= 0 {
                    if !line.trim().is_empty() {
                        text.push_str(&" ".repeat(shift as usize));
                    }
                    text.push_str(line);
                } else {
                    let cut = line.len() - line.trim_start_matches(' ').len();
                    text.push_str(&line[cut.min((-shift) as usize)..]);
                }
            }
            pos = e;
        }
        text.push_str(&base[pos..]);
        Case { text, well_formed: true, label: format!("mlshapes#{i}:c{cont}:n{n}:shifts{:?}:sufs{:?}", shifts.iter().map(|s| ML_SHIFTS[*s]).collect::<Vec<_>>(), sufs), wrap_hint: None, meta: Value::Null }
    }
}
