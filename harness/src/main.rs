mod check;
mod gen;
mod mon;
mod obs;
mod pool;
mod prog;
mod replay;
mod toggle;

use check::*;
use gen::*;
use serde_json::{json, Value};
use std::collections::HashMap;
use std::io::{BufRead, Write};
use std::sync::atomic::{AtomicI64, Ordering};
use std::sync::{Arc, Mutex};

fn build_suite(name: &str, params: &Value) -> Box<dyn Suite + Send + Sync> {
    let strs = |v: &Value| -> Vec<String> { v.as_array().map(|a| a.iter().map(|x| x.as_str().unwrap().to_string()).collect()).unwrap_or_default() };
    let seeds_path = params["seeds"].as_str().unwrap_or("/verif/seeds/seeds.ndjson").to_string();
    match name {
        "soup" => Box::new(Soup { alphabet: strs(&params["alphabet"]), len: params["len"].as_u64().unwrap() as u32, seps: strs(&params["seps"]) }),
        "walk" => Box::new(SoupWalk {
            alphabet: strs(&params["alphabet"]),
            min_len: params["min_len"].as_u64().unwrap_or(4) as u32,
            max_len: params["max_len"].as_u64().unwrap_or(40) as u32,
            count: params["count"].as_u64().unwrap(),
            seed: params["seed"].as_u64().unwrap_or(0),
            raw: params["raw"].as_bool().unwrap_or(false),
        }),
        "seeds" => Box::new(Seeds { seeds: load_seeds(&seeds_path) }),
        "truncations" => Box::new(Truncations::new(load_seeds(&seeds_path), params["stride"].as_u64().unwrap_or(1) as usize)),
        "splices" => Box::new(Splices { seeds: load_seeds(&seeds_path), count: params["count"].as_u64().unwrap(), seed: params["seed"].as_u64().unwrap_or(0) }),
        "asm" => Box::new(Asm { count: params["count"].as_u64().unwrap_or(1000), seed: params["seed"].as_u64().unwrap_or(0) }),
        "scaled" => Box::new(Scaled { max_k: params["max_k"].as_u64().unwrap_or(40) as u32 }),
        "grid" => {
            let nums = |v: &Value| -> Vec<usize> { v.as_array().map(|a| a.iter().map(|x| x.as_u64().unwrap() as usize).collect()).unwrap_or_default() };
            Box::new(Grid { kinds: strs(&params["kinds"]), lens: nums(&params["lens"]), rems: nums(&params["rems"]), offsets: nums(&params["offsets"]), delims: strs(&params["delims"]), tails: strs(&params["tails"]) })
        }
        "delims" => {
            let nums = |v: &Value| -> Vec<usize> { v.as_array().map(|a| a.iter().map(|x| x.as_u64().unwrap() as usize).collect()).unwrap_or_default() };
            Box::new(Delims { kinds: strs(&params["kinds"]), lens: nums(&params["lens"]), mbs: strs(&params["mbs"]), positions: nums(&params["positions"]), terms: strs(&params["terms"]) })
        }
        "mlshapes" => Box::new(MlShapes { max: params["max"].as_u64().unwrap_or(u64::MAX) }),
        "dirnest" => Box::new(DirNest { count: params["count"].as_u64().unwrap_or(1000), seed: params["seed"].as_u64().unwrap_or(0) }),
        "programs" => {
            // params: path, variants: [[deco, spacing, {opts}]...], alts: [[spacing, mode]...]
            let progs = prog::load_programs(params["path"].as_str().unwrap());
            let variants = params["variants"].as_array().unwrap().iter().map(|v| {
                let o = &v[2];
                (v[0].as_u64().unwrap(), v[1].as_u64().unwrap(), prog::Opts {
                    comments: o["comments"].as_bool().unwrap_or(false),
                    blank_lines: o["blank_lines"].as_bool().unwrap_or(false),
                    directives: o["directives"].as_bool().unwrap_or(false),
                    regions: o["regions"].as_bool().unwrap_or(false),
                    tight: o["tight"].as_bool().unwrap_or(false),
                    cr_comments: o["cr_comments"].as_bool().unwrap_or(false),
                    regions2: o["regions2"].as_bool().unwrap_or(false),
                    spacing_mode: o["mode"].as_u64().unwrap_or(1) as u32,
                    crlf_tokens: o["crlf_tokens"].as_bool().unwrap_or(false),
                    fixed_regions: o["fixed_regions"].as_bool().unwrap_or(false),
                })
            }).collect();
            let alt_spacings = params["alts"].as_array().map(|a| a.iter().map(|x| (x[0].as_u64().unwrap(), x[1].as_u64().unwrap() as u32)).collect()).unwrap_or_default();
            Box::new(prog::Programs { progs, variants, alt_spacings })
        }
        "texts" => {
            let path = params["path"].as_str().unwrap();
            let items = std::fs::read_to_string(path)
                .unwrap_or_else(|e| panic!("cannot read {path}: {e}"))
                .lines()
                .filter(|l| !l.trim().is_empty())
                .enumerate()
                .map(|(i, l)| {
                    let v: Value = serde_json::from_str(l).expect("texts line");
                    let text = match &v["text"] {
                        Value::String(s) => s.clone(),
                        Value::Array(a) => a.iter().map(|c| char::from_u32(c.as_u64().unwrap() as u32).unwrap()).collect(),
                        _ => panic!("texts line without text"),
                    };
                    (text, v["wf"].as_bool().unwrap_or(false), v["label"].as_str().map(|s| s.to_string()).unwrap_or(format!("text#{i}")), v.get("meta").cloned().unwrap_or(Value::Null))
                })
                .collect();
            Box::new(Texts { items })
        }
        _ => panic!("unknown suite {name}"),
    }
}

fn cfgs_of(v: &Value) -> Vec<obs::Cfg> {
    match v {
        Value::String(s) => cfg_set(s),
        Value::Array(a) => a.iter().map(cfg_from_json).collect(),
        _ => cfg_set("default"),
    }
}

fn worker(timeout_ms: u64) {
    obs::install_panic_hook();
    let suites: Arc<Mutex<HashMap<String, Arc<Box<dyn Suite + Send + Sync>>>>> = Arc::new(Mutex::new(HashMap::new()));
    let current: Arc<Mutex<Option<Arc<Box<dyn Suite + Send + Sync>>>>> = Arc::new(Mutex::new(None));
    let task_id = Arc::new(AtomicI64::new(-1));
    {
        let current = current.clone();
        pool::start_watchdog(
            timeout_ms,
            Arc::new(move |idx| {
                // never block on a lock held by the stuck thread
                match current.try_lock() {
                    Ok(g) => g.as_ref().map(|s| { let c = s.get(idx); json!({"text": c.text, "label": c.label}) }).unwrap_or(Value::Null),
                    Err(_) => Value::Null,
                }
            }),
            task_id.clone(),
        );
    }
    let stdin = std::io::stdin();
    let stdout = std::io::stdout();
    let mut ctx = Ctx::new();
    for line in stdin.lock().lines() {
        let Ok(line) = line else { break };
        if line.trim().is_empty() {
            continue;
        }
        let task: Value = serde_json::from_str(&line).expect("task json");
        let key = format!("{}:{}", task["suite"], task["params"]);
        let suite = {
            let mut m = suites.lock().unwrap();
            m.entry(key).or_insert_with(|| Arc::new(build_suite(task["suite"].as_str().unwrap(), &task["params"]))).clone()
        };
        *current.lock().unwrap() = Some(suite.clone());
        task_id.store(task["id"].as_i64().unwrap_or(-1), Ordering::SeqCst);
        let props: Vec<String> = task["props"].as_array().map(|a| a.iter().map(|x| x.as_str().unwrap().to_string()).collect()).unwrap_or_default();
        let cfgs = cfgs_of(&task["cfgs"]);
        let rotate = task["cfg_mode"].as_str() == Some("rotate");
        let use_hint = task["wrap_hint"].as_bool().unwrap_or(false);
        let careful = task["careful"].as_bool().unwrap_or(false);
        let sample_every = task["sample_every"].as_u64().unwrap_or(0);
        let start = task["start"].as_u64().unwrap_or(0);
        let end = task["end"].as_u64().unwrap_or(suite.len()).min(suite.len());
        let mut evaluated = 0u64;
        let mut nviol = 0u64;
        let mut skipped = 0u64;
        let mut too_long = 0u64;
        let mut nontrivial: HashMap<String, u64> = HashMap::new();
        let runs_before = ctx.runs;
        let mut o = stdout.lock();
        for i in start..end {
            if careful || i % 256 == 0 {
                let _ = writeln!(o, "{}", json!({"t": "at", "index": i}));
                let _ = o.flush();
            }
            pool::at(i);
            let case = suite.get(i);
            let chosen: Vec<obs::Cfg> = if rotate { vec![cfgs[(i % cfgs.len() as u64) as usize].clone()] } else { cfgs.clone() };
            for (ci, cfg) in chosen.iter().enumerate() {
                let mut cfg = cfg.clone();
                if use_hint {
                    if let Some(w) = case.wrap_hint {
                        if ci == 0 {
                            cfg.wrap_column = w;
                        }
                    }
                }
                let sampled = sample_every > 0 && (i + ci as u64) % sample_every == 0;
                let r = check_case(&mut ctx, &case, &cfg, &props, sampled);
                evaluated += 1;
                skipped += r.skipped_precondition;
                for (k, n) in &r.nontrivial {
                    if *k == "unsolved_in_wellformed" && std::env::var("VH_UNSOLVED").is_ok() {
                        let _ = writeln!(o, "{}", json!({"t": "note", "what": "unsolved", "label": case.label, "text": case.text}));
                    }
                    *nontrivial.entry(k.to_string()).or_insert(0) += n;
                }
                let sess = if !r.viols.is_empty() || sampled { Some(r.session.to_json()) } else { None };
                for v in &r.viols {
                    nviol += 1;
                    let _ = writeln!(
                        o,
                        "{}",
                        json!({"t": "viol", "task": task["id"], "index": i, "prop": v.prop, "clause": v.clause, "detail": v.detail,
                               "case": {"text": case.text, "label": case.label, "wf": case.well_formed, "cfg": cfg}})
                    );
                }
                if let Some(s) = sess {
                    // (a session nothing was flagged in is only recorded when TLC can be given it: texts of moderate length)
                    let weight: usize = s["calls"].as_array().map(|cs| cs.iter().map(|c| c["in"].as_array().map_or(0, |a| a.len()) + c["out"].as_array().map_or(0, |a| a.len())).sum()).unwrap_or(0);
                    if !r.viols.is_empty() || weight <= 40000 {
                        let _ = writeln!(o, "{}", json!({"t": "session", "task": task["id"], "index": i, "flagged": !r.viols.is_empty(), "label": case.label, "cfg": cfg, "session": s}));
                    } else {
                        too_long += 1;
                    }
                }
            }
        }
        pool::CURRENT_INDEX.store(-1, Ordering::SeqCst);
        let _ = writeln!(
            o,
            "{}",
            json!({"t": "done", "task": task["id"], "suite": task["suite"], "evaluated": evaluated, "runs": ctx.runs - runs_before, "viols": nviol,
                   "skipped_precondition": skipped, "sessions_too_long": too_long, "nontrivial": nontrivial, "start": start, "end": end})
        );
        let _ = o.flush();
    }
}

fn main() {
    let args: Vec<String> = std::env::args().collect();
    match args.get(1).map(|s| s.as_str()) {
        Some("worker") => worker(args.get(2).and_then(|s| s.parse().ok()).unwrap_or(2000)),
        Some("pool") => {
            // vh pool <tasks.ndjson> <results.ndjson> <procs> <timeout_ms>
            let tasks: Vec<Value> = std::fs::read_to_string(&args[2]).expect("tasks file").lines().filter(|l| !l.trim().is_empty()).map(|l| serde_json::from_str(l).expect("task")).collect();
            let mut out = std::io::BufWriter::new(std::fs::File::create(&args[3]).expect("results file"));
            let procs: usize = args.get(4).and_then(|s| s.parse().ok()).unwrap_or(8);
            let timeout: u64 = args.get(5).and_then(|s| s.parse().ok()).unwrap_or(2000);
            pool::run_pool(tasks, procs, timeout, |v| {
                let _ = writeln!(out, "{}", v);
            });
            let _ = out.flush();
        }
        Some("replay") => {
            // vh replay <kind> <behaviours.ndjson> <mismatches.ndjson>
            obs::install_panic_hook();
            let mut out = std::io::BufWriter::new(std::fs::File::create(&args[4]).expect("out file"));
            let (n, bad) = match args[2].as_str() {
                "lex" => replay::replay_lex(&args[3], &mut out),
                "passes" => replay::replay_passes(&args[3], &mut out),
                "mlstring" => replay::replay_mlstring(&args[3], &mut out),
                "comment" => replay::replay_comment(&args[3], &mut out),
                "recon" => replay::replay_recon(&args[3], &mut out),
                k => panic!("unknown replay kind {k}"),
            };
            let _ = out.flush();
            println!("{}", json!({"replayed": n, "mismatches": bad}));
        }
        Some("show") => {
            // vh show <suite> <params-json> <index>: print a case
            let params: Value = serde_json::from_str(&args[3]).expect("params");
            let c = build_suite(&args[2], &params).get(args[4].parse().unwrap());
            println!("{}", json!({"label": c.label, "wf": c.well_formed, "text": c.text, "meta": c.meta}));
        }
        Some("suite-len") => {
            // vh suite-len <suite> <params-json>
            let params: Value = serde_json::from_str(&args[3]).expect("params");
            println!("{}", build_suite(&args[2], &params).len());
        }
        Some("case") => {
            // vh case <props,comma-separated> <cfg-json> [wf]   (text on stdin): run the monitors on one text
            let props: Vec<String> = args[2].split(',').map(|s| s.to_string()).collect();
            let cfg = cfg_from_json(&serde_json::from_str(args.get(3).map(|s| s.as_str()).unwrap_or("{}")).expect("cfg"));
            let mut text = String::new();
            std::io::Read::read_to_string(&mut std::io::stdin(), &mut text).unwrap();
            obs::install_panic_hook();
            let case = Case { text, label: "stdin".into(), well_formed: args.get(4).map(|s| s == "wf").unwrap_or(false), wrap_hint: None, meta: Value::Null };
            let mut ctx = Ctx::new();
            let r = check_case(&mut ctx, &case, &cfg, &props, false);
            for v in &r.viols {
                println!("{}", json!({"prop": v.prop, "clause": v.clause, "detail": v.detail}));
            }
            println!("{}", json!({"viols": r.viols.len(), "nontrivial": r.nontrivial.iter().map(|(k, n)| (k.to_string(), *n)).collect::<HashMap<String, u64>>()}));
        }
        Some("lines") => {
            // vh lines <cfg-json>  (text on stdin): the logical lines of the final stage
            let cfg = cfg_from_json(&serde_json::from_str(args.get(2).map(|s| s.as_str()).unwrap_or("{}")).expect("cfg"));
            let mut text = String::new();
            std::io::Read::read_to_string(&mut std::io::stdin(), &mut text).unwrap();
            obs::install_panic_hook();
            let r = obs::run(&text, &cfg, &[], true);
            let tin = obs::lex(&text).unwrap_or_default();
            if let Some(fin) = mon::final_stage(&r.events) {
                for (k, l) in fin.lines.iter().enumerate() {
                    let words: Vec<&str> = l.tokens.iter().map(|&t| tin.get(t).map(|x| x.text(&text)).unwrap_or("?")).collect();
                    println!("{k}: parent={:?} level={} type={} {:?}", l.parent, l.level, l.line_type, words);
                }
            }
        }
        Some("cursors") => {
            // vh cursors <cfg-json> <comma-separated offsets>  (text on stdin): the relocated cursors of the core, one line `CURSOR=..`
            let cfg = cfg_from_json(&serde_json::from_str(args.get(2).map(|s| s.as_str()).unwrap_or("{}")).expect("cfg"));
            let cur: Vec<u32> = args.get(3).map(|s| s.split(',').filter(|x| !x.is_empty()).map(|x| x.parse().unwrap()).collect()).unwrap_or_default();
            let mut text = String::new();
            std::io::Read::read_to_string(&mut std::io::stdin(), &mut text).unwrap();
            obs::install_panic_hook();
            let r = obs::run(&text, &cfg, &cur, false);
            match r.out {
                Ok(o) => {
                    println!("CURSOR={}", r.cursors_out.iter().map(|c| c.to_string()).collect::<Vec<_>>().join(","));
                    println!("LEN={}", o.len());
                }
                Err(p) => {
                    eprintln!("PANIC {p}");
                    std::process::exit(101)
                }
            }
        }
        Some("fmt") => {
            // vh fmt <cfg-json>   (stdin -> stdout), for replaying a single case
            let cfg = cfg_from_json(&serde_json::from_str(args.get(2).map(|s| s.as_str()).unwrap_or("{}")).expect("cfg"));
            let mut text = String::new();
            std::io::Read::read_to_string(&mut std::io::stdin(), &mut text).unwrap();
            obs::install_panic_hook();
            let r = obs::run(&text, &cfg, &[], false);
            match r.out {
                Ok(o) => print!("{o}"),
                Err(p) => {
                    eprintln!("PANIC {p}");
                    std::process::exit(101)
                }
            }
        }
        _ => {
            eprintln!("usage: vh worker|pool|suite-len|fmt …");
            std::process::exit(2);
        }
    }
}

#[allow(dead_code)]
pub fn debug_scan(text: &str, plain: &[String]) {
    if let Ok(toks) = obs::lex(text) {
        let got: Vec<&str> = toks.iter().filter(|t| !t.is_comment() && !t.is_directive() && t.kind != "Eof").map(|t| t.text(text)).collect();
        for i in 0..got.len().max(plain.len()) {
            let a = got.get(i).copied().unwrap_or("<none>");
            let b = plain.get(i).map(|s| s.as_str()).unwrap_or("<none>");
            if a != b {
                eprintln!("first difference at plain token {i}: scanned {a:?} intended {b:?}");
                return;
            }
        }
    }
}
