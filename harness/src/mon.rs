//! Fast property monitors. Each mirrors a predicate of the TLA+ specification (spec/Props.tla, spec/Session.tla …)
//! and is used as a pre-filter at full speed; flagged cases and a sample of all cases are re-decided by TLC.

use crate::obs::*;
use pasfmt_core::verif::{Event, StageSnapshot};

pub const KEYWORDS: [&str; 122] = [
    "and", "array", "as", "asm", "begin", "case", "class", "const", "constructor", "destructor",
    "dispinterface", "div", "do", "downto", "else", "end", "except", "exports", "file",
    "finalization", "finally", "for", "function", "goto", "if", "implementation", "in",
    "inherited", "initialization", "inline", "interface", "is", "label", "library", "mod", "nil",
    "not", "object", "of", "or", "packed", "procedure", "program", "property", "raise", "record",
    "repeat", "resourcestring", "set", "shl", "shr", "string", "then", "threadvar", "to", "try",
    "type", "unit", "until", "uses", "var", "while", "with", "xor", "absolute", "abstract",
    "align", "assembler", "at", "automated", "cdecl", "contains", "default", "delayed",
    "deprecated", "dispid", "dynamic", "experimental", "export", "external", "far", "final",
    "forward", "helper", "implements", "index", "local", "message", "name", "near", "nodefault",
    "on", "operator", "out", "overload", "override", "package", "pascal", "platform", "private",
    "protected", "public", "published", "read", "readonly", "reference", "register",
    "reintroduce", "requires", "resident", "safecall", "sealed", "static", "stdcall", "stored",
    "strict", "unsafe", "varargs", "virtual", "winapi", "write", "writeonly",
];

pub fn is_blank(c: char) -> bool {
    c <= '\u{20}' || c == '\u{3000}'
}

pub fn nonblank(s: &str) -> Vec<char> {
    s.chars().filter(|c| !is_blank(*c)).collect()
}

pub fn is_keyword_word(w: &str) -> bool {
    let l = w.to_ascii_lowercase();
    KEYWORDS.contains(&l.as_str())
}

/// Range (byte offsets relative to the token text) of the name of a compiler directive.
pub fn directive_name_range(text: &str) -> Option<(usize, usize)> {
    let p = if text.starts_with("{$") {
        2
    } else if text.starts_with("(*$") {
        3
    } else {
        return None;
    };
    let n = text[p..]
        .bytes()
        .take_while(|b| b.is_ascii_alphanumeric() || matches!(b, b'_' | b'+' | b'-' | b','))
        .count();
    Some((p, p + n))
}

#[derive(Debug, Clone)]
pub struct Viol {
    pub prop: &'static str,
    pub clause: &'static str,
    pub detail: String,
}

fn v(prop: &'static str, clause: &'static str, detail: impl Into<String>) -> Option<Viol> {
    Some(Viol {
        prop,
        clause,
        detail: detail.into(),
    })
}

// ---------------------------------------------------------------- C13 (lossless clauses)

pub fn c13_lossless(text: &str, toks: &[Tok]) -> Option<Viol> {
    let mut pos = 0;
    for (i, t) in toks.iter().enumerate() {
        if t.start != pos {
            return v("C13", "lossless", format!("token {i} does not start where the previous one ended"));
        }
        pos = t.end();
        let last = i + 1 == toks.len();
        if (t.kind == "Eof") != last {
            return v("C13", "one_eof_last", format!("token {i} kind {} last={last}", t.kind));
        }
        if !t.ws(text).chars().all(is_blank) {
            return v("C13", "ws_blank", format!("token {i} leading part is not blank"));
        }
        if !last {
            match t.text(text).chars().next() {
                None => return v("C13", "nonempty", format!("token {i} is empty")),
                Some(c) if is_blank(c) => {
                    return v("C13", "nonblank_start", format!("token {i} starts with a blank"))
                }
                _ => {}
            }
        } else if t.len != 0 {
            return v("C13", "eof_empty", "Eof token has content");
        }
    }
    if pos != text.len() {
        return v("C13", "lossless", format!("tokens cover {pos} of {} bytes", text.len()));
    }
    None
}

// ---------------------------------------------------------------- C01

pub fn c01(text: &str, tin: &[Tok], out: &str) -> Option<Viol> {
    let a = nonblank(text);
    let b = nonblank(out);
    if a.len() != b.len() {
        let k = a.iter().zip(&b).position(|(x, y)| !x.eq_ignore_ascii_case(y)).unwrap_or(a.len().min(b.len()));
        return v(
            "C01",
            "sequence",
            format!("non-blank length {} -> {}; first difference at index {k}", a.len(), b.len()),
        );
    }
    // map: non-blank index -> (token index, byte offset in token text)
    let mut k = 0usize;
    for (ti, t) in tin.iter().enumerate() {
        let tx = t.text(text);
        let word_ok = (t.kind == "Identifier"
            || t.kind.starts_with("Keyword(")
            || t.kind.starts_with("IdentifierOrKeyword("))
            && is_keyword_word(tx);
        let dir_range = if t.is_directive() { directive_name_range(tx) } else { None };
        // blanks inside the leading part are skipped by construction (ws is blank)
        for (off, c) in tx.char_indices() {
            if is_blank(c) {
                continue;
            }
            let d = b[k];
            if c != d {
                if !c.eq_ignore_ascii_case(&d) {
                    return v("C01", "sequence", format!("non-blank index {k}: {c:?} -> {d:?} (token {ti} {})", t.kind));
                }
                let in_dir = dir_range.is_some_and(|(s, e)| off >= s && off < e);
                if !(word_ok || in_dir) {
                    return v(
                        "C01",
                        "case",
                        format!("case changed outside keyword/directive name: token {ti} {} {:?}", t.kind, tx),
                    );
                }
            }
            k += 1;
        }
    }
    if k != a.len() {
        return v("C01", "internal", "token texts do not cover the non-blank characters");
    }
    None
}

// ---------------------------------------------------------------- final table and rendered whitespace

pub fn stages(events: &[Event]) -> Vec<&StageSnapshot> {
    events
        .iter()
        .filter_map(|e| match e {
            Event::Stage(s) => Some(s),
            _ => None,
        })
        .collect()
}

pub fn final_stage(events: &[Event]) -> Option<&StageSnapshot> {
    stages(events).into_iter().next_back().filter(|s| s.stage == "format")
}

pub fn lex_stage(events: &[Event]) -> Option<&StageSnapshot> {
    stages(events).into_iter().find(|s| s.stage == "lex")
}

pub fn has_step(events: &[Event], name: &str) -> bool {
    events.iter().any(|e| matches!(e, Event::Step(n, _, _) if *n == name))
}

pub fn step_args<'a>(events: &'a [Event], name: &str) -> Vec<&'a Vec<i64>> {
    events.iter().filter_map(|e| match e { Event::Step(n, a, _) if *n == name => Some(a), _ => None }).collect()
}

/// Tokens of logical lines for which the wrapper found no solution (the line and all lines below it).
pub fn unsolved_tokens(events: &[Event], fin: &StageSnapshot) -> std::collections::HashSet<usize> {
    let mut bad: std::collections::HashSet<usize> = step_args(events, "wrap_unsolved").iter().map(|a| a[0] as usize).collect();
    let mut res = std::collections::HashSet::new();
    if bad.is_empty() {
        return res;
    }
    // lines are ordered so that parents precede children
    for (li, l) in fin.lines.iter().enumerate() {
        if let Some((pl, _)) = l.parent {
            if bad.contains(&pl) {
                bad.insert(li);
            }
        }
    }
    for li in &bad {
        if let Some(l) = fin.lines.get(*li) {
            res.extend(l.tokens.iter().copied());
        }
    }
    res
}

/// Tokens of child lines whose parent (or a line further up) was voided because all its tokens are verbatim: such child
/// lines never reach the wrapper.
pub fn tokens_under_voided_lines(fin: &StageSnapshot) -> std::collections::HashSet<usize> {
    let mut bad: std::collections::HashSet<usize> = fin.lines.iter().enumerate().filter(|(_, l)| l.line_type == "Voided").map(|(i, _)| i).collect();
    let mut res = std::collections::HashSet::new();
    if bad.is_empty() {
        return res;
    }
    for (li, l) in fin.lines.iter().enumerate() {
        if let Some((pl, _)) = l.parent {
            if bad.contains(&pl) {
                bad.insert(li);
                res.extend(l.tokens.iter().copied());
            }
        }
    }
    res
}

/// Where each token of the final table landed in the output.
#[derive(Debug, Clone)]
pub struct Span {
    pub ws_start: usize,
    pub start: usize,
    pub end: usize,
}

pub fn spans(out: &str, fin: &StageSnapshot) -> Result<Vec<Span>, String> {
    let mut pos = 0usize;
    let mut res = Vec::with_capacity(fin.texts.len());
    for (i, text) in fin.texts.iter().enumerate() {
        let ws_len: usize = out[pos..]
            .chars()
            .take_while(|c| is_blank(*c))
            .map(|c| c.len_utf8())
            .sum();
        let start = pos + ws_len;
        if !out[start..].starts_with(text.as_str()) {
            return Err(format!("token {i} ({}) not found at byte {start} of the output", fin.kinds[i]));
        }
        res.push(Span {
            ws_start: pos,
            start,
            end: start + text.len(),
        });
        pos = start + text.len();
    }
    if pos != out.len() {
        return Err(format!("output has {} bytes after the last token", out.len() - pos));
    }
    Ok(res)
}

/// Split rendered whitespace into (number of configured line breaks, tail). None if it contains any other break.
pub fn split_ws<'a>(ws: &'a str, nl: &str) -> Option<(usize, &'a str)> {
    let mut n = 0;
    let mut rest = ws;
    loop {
        if let Some(r) = rest.strip_prefix(nl) {
            n += 1;
            rest = r;
        } else {
            break;
        }
    }
    if rest.contains('\n') || rest.contains('\r') {
        // a blank between breaks (trailing blanks) or a foreign line break
        return None;
    }
    Some((n, rest))
}

/// C08 + the emitted-break clause of C09 on one run. `well_formed` enables the end-of-file clause.
pub fn c08_c09(run: &Run, out: &str, well_formed: bool) -> Vec<Viol> {
    let mut res = vec![];
    let Some(fin) = final_stage(&run.events) else {
        return res;
    };
    let sp = match spans(out, fin) {
        Ok(s) => s,
        Err(e) => {
            res.push(Viol { prop: "C01", clause: "reconstruct", detail: e });
            return res;
        }
    };
    let nl = run.cfg.nl();
    let n = sp.len();
    let unsolved = unsolved_tokens(&run.events, fin);
    let orphaned = tokens_under_voided_lines(fin);
    let site = |i: usize| if unsolved.contains(&i) { " [site: line without a wrapping solution]" } else if orphaned.contains(&i) { " [site: child line of a logical line that is entirely verbatim]" } else { "" };
    for i in 0..n {
        let ignored = fin.fmt[i][0] != 0;
        let ws = &out[sp[i].ws_start..sp[i].start];
        let text = &out[sp[i].start..sp[i].end];
        let kind = fin.kinds[i].as_str();
        if ignored {
            continue;
        }
        // ---- rendered whitespace
        match split_ws(ws, nl) {
            None => {
                // which clause?
                let foreign = if nl == "\n" { ws.contains('\r') } else { ws.replace("\r\n", "").contains(['\r', '\n']) };
                if foreign {
                    res.push(Viol { prop: "C09", clause: "emitted_break", detail: format!("token {i} {kind}: whitespace {ws:?} contains a break that is not the configured one") });
                } else {
                    res.push(Viol { prop: "C08", clause: "trailing_blanks", detail: format!("token {i} {kind}: blanks before a line break in {ws:?}") });
                }
            }
            Some((breaks, tail)) => {
                if i == 0 && breaks > 0 && kind != "Eof" {
                    res.push(Viol { prop: "C08", clause: "leading_blank_line", detail: format!("output starts with {breaks} line break(s){}", site(i)) });
                }
                if breaks > 2 {
                    res.push(Viol { prop: "C08", clause: "double_blank_line", detail: format!("token {i} {kind}: {breaks} line breaks before it{}", site(i)) });
                }
                if breaks == 0 && i > 0 {
                    if !(tail.is_empty() || tail == " ") {
                        res.push(Viol { prop: "C08", clause: "one_space", detail: format!("token {i} {kind}: separated by {tail:?}") });
                    }
                    if kind == "Eof" && !tail.is_empty() {
                        res.push(Viol { prop: "C08", clause: "trailing_blanks", detail: format!("output ends in blanks {tail:?}") });
                    }
                } else {
                    // indentation of a line
                    let safety_net = i > 0 && fin.fmt[i][1] == 0 && matches!(fin.kinds[i - 1].as_str(), "Comment(InlineLine)" | "Comment(IndividualLine)");
                    let site2 = if safety_net { " [site: the line break after a line comment was supplied by the reconstructor's safety net]" } else { "" };
                    let ok = if run.cfg.use_tabs {
                        tail.chars().all(|c| c == '\t')
                    } else {
                        tail.chars().all(|c| c == ' ')
                            && (if run.cfg.tab_width == 0 { tail.is_empty() } else { tail.len() % run.cfg.tab_width as usize == 0 })
                    };
                    if !ok {
                        res.push(Viol { prop: "C08", clause: "indent_units", detail: format!("token {i} {kind}: indentation {tail:?}{site2}") });
                    }
                    if kind == "Eof" && !tail.is_empty() {
                        res.push(Viol { prop: "C08", clause: "trailing_blanks", detail: format!("last line consists of blanks {tail:?}") });
                    }
                }
            }
        }
        // ---- token text ending in blanks at the end of a line
        let at_line_end = if i + 1 < n {
            let nws = &out[sp[i + 1].ws_start..sp[i + 1].start];
            nws.starts_with(['\n', '\r']) || (i + 2 == n && nws.is_empty())
        } else {
            true
        };
        if kind == "TextLiteral(MultiLine)" {
            let rewritten = lex_stage(&run.events).is_some_and(|l| l.texts.len() == fin.texts.len() && l.texts[i] != fin.texts[i]);
            let foreign = if nl == "\n" { text.contains('\r') } else { text.replace("\r\n", "").contains(['\r', '\n']) };
            if rewritten && foreign {
                res.push(Viol { prop: "C09", clause: "emitted_break_in_string", detail: format!("token {i}: re-indented string contains a break that is not the configured one") });
            }
        }
        if at_line_end && text.ends_with([' ', '\t']) {
            res.push(Viol { prop: "C08", clause: "trailing_blanks", detail: format!("token {i} {kind} ends in blanks at the end of a line: {:?}", tail_of(text)) });
        }
    }
    if well_formed {
        let ok = out.ends_with(nl) && !out[..out.len() - nl.len()].ends_with(['\n', '\r']) && !out.is_empty();
        let eof_ignored = fin.fmt.last().is_some_and(|f| f[0] != 0);
        if !ok && !eof_ignored {
            res.push(Viol { prop: "C08", clause: "eof_terminator", detail: format!("output ends with {:?}", tail_of(out)) });
        }
    }
    res
}

fn tail_of(s: &str) -> &str {
    let mut n = s.len().saturating_sub(12);
    while !s.is_char_boundary(n) {
        n += 1;
    }
    &s[n..]
}

// ---------------------------------------------------------------- C10 (per-line arithmetic)

pub fn c10_units(run: &Run, out: &str) -> Option<Viol> {
    let fin = final_stage(&run.events)?;
    let sp = spans(out, fin).ok()?;
    let nl = run.cfg.nl();
    let (unit, unit_len) = if run.cfg.use_tabs { ('\t', 1usize) } else { (' ', run.cfg.tab_width as usize) };
    for i in 0..sp.len() {
        if fin.fmt[i][0] != 0 {
            continue;
        }
        let ws = &out[sp[i].ws_start..sp[i].start];
        let Some((breaks, tail)) = split_ws(ws, nl) else { continue };
        if breaks == 0 && i > 0 {
            continue;
        }
        let ind = fin.fmt[i][2] as usize;
        let cont = fin.fmt[i][3] as usize;
        let spaces = fin.fmt[i][4] as usize;
        let expect = (ind + run.cfg.continuation_indents as usize * cont) * unit_len;
        let units_only = tail.chars().all(|c| c == unit);
        if !(units_only && tail.len() == expect) && spaces == 0 {
            // known finding F4 is exactly this: the continuation width saturates at 255 columns (soft tabs)
            let saturated = !run.cfg.use_tabs
                && run.cfg.continuation_indents as usize * unit_len > 255
                && units_only
                && tail.len() == ind * unit_len + cont * 255;
            let site = if saturated { " [site: continuation width saturated at 255 columns]" } else { "" };
            return v(
                "C10",
                "units",
                format!("token {i} {}: indentation of {} columns but levels={ind} continuations={cont} ci={} unit={unit_len}x{unit:?}{site}", fin.kinds[i], tail.len(), run.cfg.continuation_indents),
            );
        }
    }
    None
}

// ---------------------------------------------------------------- C14

pub fn c14(ntok: usize, kinds: &[String], lines: &[Line], well_formed: bool) -> Option<Viol> {
    let mut cover = vec![0u32; ntok];
    for (li, l) in lines.iter().enumerate() {
        if l.tokens.is_empty() {
            return v("C14", "nonempty", format!("line {li} ({}) is empty", l.typ));
        }
        for w in l.tokens.windows(2) {
            if w[0] >= w[1] {
                return v("C14", "increasing", format!("line {li}: tokens {:?}", l.tokens));
            }
        }
        for &t in &l.tokens {
            if t >= ntok {
                return v("C14", "valid_positions", format!("line {li}: token {t} of {ntok}"));
            }
            cover[t] += 1;
        }
    }
    if let Some(i) = cover.iter().position(|c| *c == 0) {
        return v("C14", "cover", format!("token {i} ({}) is in no line", kinds[i]));
    }
    let has_cond = kinds.iter().any(|k| k.starts_with("ConditionalDirective("));
    if !has_cond {
        if let Some(i) = cover.iter().position(|c| *c != 1) {
            return v("C14", "exactly_once", format!("token {i} ({}) is in {} lines", kinds[i], cover[i]));
        }
    }
    if well_formed {
        for (li, l) in lines.iter().enumerate() {
            if let Some((pl, pt)) = l.parent {
                if pl >= li {
                    return v("C14", "parent_precedes", format!("line {li} has parent line {pl}"));
                }
                if !lines[pl].tokens.contains(&pt) {
                    return v("C14", "parent_token", format!("line {li}: parent token {pt} is not in parent line {pl}"));
                }
            }
        }
        let eofs: Vec<_> = lines.iter().filter(|l| l.typ == "Eof").collect();
        if eofs.len() != 1 || eofs[0].tokens != vec![ntok - 1] {
            return v("C14", "eof_line", format!("{} Eof lines: {:?}", eofs.len(), eofs.iter().map(|l| &l.tokens).collect::<Vec<_>>()));
        }
        // a line that holds the end-of-file token is an end-of-file line: there is one, and it holds nothing else
        if let Some((li, l)) = lines.iter().enumerate().find(|(_, l)| l.typ != "Eof" && l.tokens.contains(&(ntok - 1))) {
            return v("C14", "eof_line", format!("the end-of-file token is also in line {li} ({}) with tokens {:?}", l.typ, l.tokens));
        }
    }
    None
}

// ---------------------------------------------------------------- C15

/// `plain_out`: output without cursor tracking; `run`: the run with cursors (recorded).
pub fn c15(run: &Run, plain_out: &str) -> Vec<Viol> {
    let mut res = vec![];
    let out = match &run.out {
        Ok(o) => o,
        Err(_) => return res,
    };
    if out != plain_out {
        res.push(Viol { prop: "C15", clause: "text_unchanged", detail: "output differs when cursors are tracked".into() });
        return res;
    }
    let (Some(fin), Some(lexs)) = (final_stage(&run.events), lex_stage(&run.events)) else {
        return res;
    };
    let Ok(sp) = spans(out, fin) else { return res };
    // token starts in the input
    let mut starts = Vec::with_capacity(lexs.texts.len());
    let mut pos = 0usize;
    for i in 0..lexs.texts.len() {
        pos += lexs.ws[i].len();
        starts.push(pos);
        pos += lexs.texts[i].len();
    }
    let in_len = run.text.len();
    for (k, (&old, &new)) in run.cursors_in.iter().zip(&run.cursors_out).enumerate() {
        let (old, new) = (old as usize, new as usize);
        if new > out.len() || !out.is_char_boundary(new) {
            res.push(Viol { prop: "C15", clause: "within_output", detail: format!("cursor {k}: {old} -> {new}, output length {}", out.len()) });
            continue;
        }
        if old > in_len {
            if new != out.len() {
                res.push(Viol { prop: "C15", clause: "beyond_end", detail: format!("cursor {k}: {old} (input length {in_len}) -> {new}, output length {}", out.len()) });
            }
            continue;
        }
        if lexs.texts.len() != fin.texts.len() {
            continue;
        }
        // inside or at the end of token i
        for i in 0..starts.len() {
            let s = starts[i];
            let e = s + lexs.texts[i].len();
            if old > s && old <= e {
                if lexs.texts[i] == fin.texts[i] {
                    let want = sp[i].start + (old - s);
                    if new != want {
                        res.push(Viol { prop: "C15", clause: "same_offset_in_token", detail: format!("cursor {k}: {old} in token {i} {:?} (+{}) -> {new}, expected {want}", fin.kinds[i], old - s) });
                    }
                }
                break;
            }
        }
    }
    res
}

// ---------------------------------------------------------------- C11 helpers

pub fn max_line_len(s: &str) -> (usize, usize) {
    let mut mb = 0;
    let mut mc = 0;
    for l in s.split('\n') {
        let l = l.strip_suffix('\r').unwrap_or(l);
        mb = mb.max(l.len());
        mc = mc.max(l.chars().count());
    }
    (mb, mc)
}

pub fn line_count(s: &str) -> usize {
    s.split('\n').count()
}

// ---------------------------------------------------------------- multi-line strings (mirror of spec/MLString.tla)

/// Split at LF, CR and CRLF (terminators removed).
pub fn ml_lines(s: &str) -> Vec<&str> {
    let mut res = vec![];
    let b = s.as_bytes();
    let mut start = 0;
    let mut i = 0;
    while i < b.len() {
        if b[i] == b'\r' {
            res.push(&s[start..i]);
            if i + 1 < b.len() && b[i + 1] == b'\n' {
                i += 1;
            }
            start = i + 1;
        } else if b[i] == b'\n' {
            res.push(&s[start..i]);
            start = i + 1;
        }
        i += 1;
    }
    res.push(&s[start..]);
    res
}

pub fn leading_blanks(s: &str) -> &str {
    let n: usize = s.chars().take_while(|c| is_blank(*c)).map(|c| c.len_utf8()).sum();
    &s[..n]
}

/// For a multi-line literal token text: Some(value lines) if it obeys the indentation rule.
pub fn ml_value(text: &str) -> Option<Vec<String>> {
    let lines = ml_lines(text);
    if lines.len() < 2 {
        return None;
    }
    let last = lines[lines.len() - 1];
    let base = leading_blanks(last);
    if !last[base.len()..].chars().all(|c| c == '\'') {
        return None;
    }
    let mut val = vec![];
    for l in &lines[1..lines.len() - 1] {
        if let Some(r) = l.strip_prefix(base) {
            val.push(r.to_string());
        } else if l.chars().all(is_blank) {
            val.push(String::new());
        } else {
            return None;
        }
    }
    Some(val)
}

// ---------------------------------------------------------------- C02: re-scan equality modulo documented normalisations

fn is_word_kind(k: &str) -> bool {
    k == "Identifier" || k.starts_with("Keyword(") || k.starts_with("IdentifierOrKeyword(")
}

/// candidates for the normalised form of a line comment
fn line_comment_forms(t: &str) -> Vec<String> {
    let trimmed = t.trim_end_matches([' ', '\t', '\n', '\r', '\x0c']);
    let mut v = vec![trimmed.to_string()];
    for p in ["///", "//"] {
        if let Some(rest) = trimmed.strip_prefix(p) {
            // (a separator line - ten or more equal characters, no letter or digit - is left as it is)
            let is_sep = rest.chars().count() >= 10 && rest.chars().next().is_some_and(|c| c.is_ascii() && !c.is_ascii_alphanumeric()) && rest.chars().all(|c| Some(c) == rest.chars().next());
            if rest.chars().next().is_some_and(|c| !c.is_ascii_whitespace()) && !is_sep {
                v.push(format!("{p} {rest}"));
            }
            break;
        }
    }
    v
}

pub fn c02_token_equal(kind: &str, a: &str, b: &str, fms: bool) -> bool {
    if a == b {
        return true;
    }
    if is_word_kind(kind) {
        return is_keyword_word(a) && a.to_ascii_lowercase() == b;
    }
    if kind == "CompilerDirective" || kind.starts_with("ConditionalDirective(") {
        if let Some((s, e)) = directive_name_range(a) {
            // within the name (or switch list) a character is kept or upper-cased
            return a.len() == b.len() && a[..s] == b[..s] && a[e..] == b[e..]
                && a[s..e].bytes().zip(b[s..e].bytes()).all(|(x, y)| x == y || x.to_ascii_uppercase() == y);
        }
        return false;
    }
    if kind == "Comment(InlineLine)" || kind == "Comment(IndividualLine)" {
        return line_comment_forms(a).iter().any(|f| f == b);
    }
    if kind == "TextLiteral(MultiLine)" && fms {
        return match (ml_value(a), ml_value(b)) {
            (Some(x), Some(y)) => x == y && ml_lines(a)[0] == ml_lines(b)[0],
            _ => false,
        };
    }
    false
}

pub fn c02(text: &str, tin: &[Tok], out: &str, tout: &[Tok], fms: bool) -> Option<Viol> {
    c02_all(text, tin, out, tout, fms).into_iter().next()
}

/// all violations (at most a handful); a comment that follows a lone CR is reported with its site
pub fn c02_all(text: &str, tin: &[Tok], out: &str, tout: &[Tok], fms: bool) -> Vec<Viol> {
    let mut res = vec![];
    if tin.len() != tout.len() {
        let k = tin.iter().zip(tout).position(|(a, b)| a.kind != b.kind).unwrap_or(tin.len().min(tout.len()));
        res.extend(v("C02", "token_count", format!("{} tokens scanned in the input, {} in the output; first kind difference at token {k}: {:?} {:?} vs {:?} {:?}",
            tin.len(), tout.len(), tin.get(k).map(|t| &t.kind), tin.get(k).map(|t| t.text(text)), tout.get(k).map(|t| &t.kind), tout.get(k).map(|t| t.text(out)))));
        return res;
    }
    for (i, (a, b)) in tin.iter().zip(tout).enumerate() {
        if res.len() >= 5 {
            break;
        }
        if a.kind != b.kind {
            let ws = a.ws(text);
            let after_lone_cr = ws.contains('\r') && !ws.contains('\n');
            let inline_to_individual = (a.kind == "Comment(InlineLine)" && b.kind == "Comment(IndividualLine)") || (a.kind == "Comment(InlineBlock)" && b.kind == "Comment(IndividualBlock)");
            let site = if after_lone_cr && inline_to_individual { " [site: comment after a lone CR]" } else { "" };
            res.extend(v("C02", "kind", format!("token {i}: {} {:?} -> {} {:?}{site}", a.kind, a.text(text), b.kind, b.text(out))));
            if site.is_empty() {
                break;
            }
            continue;
        }
        if a.kind == "Eof" {
            continue;
        }
        if !c02_token_equal(&a.kind, a.text(text), b.text(out), fms) {
            res.extend(v("C02", "text", format!("token {i} {}: {:?} -> {:?}", a.kind, a.text(text), b.text(out))));
            break;
        }
    }
    res
}

// ---------------------------------------------------------------- C05: structure marks

pub struct LineInfo {
    /// byte offset of the start of the line containing `pos`
    pub start: usize,
    pub indent: String,
}

pub fn line_of(out: &str, pos: usize) -> LineInfo {
    let start = out[..pos].rfind('\n').map(|p| p + 1).unwrap_or(0);
    let indent: String = out[start..].chars().take_while(|c| *c == ' ' || *c == '\t').collect();
    LineInfo { start, indent }
}

/// marks: [kind, key, ref, delta, ordinal]; plain: the plain tokens of the output, in order
pub fn c05(out: &str, plain: &[&Tok], marks: &[serde_json::Value], cfg: &Cfg) -> (Vec<Viol>, u64, u64) {
    let mut res = vec![];
    let (mut checked, mut skipped) = (0u64, 0u64);
    let mut ord_of_key: std::collections::HashMap<u64, usize> = Default::default();
    let mut mark_of_key: std::collections::HashMap<u64, (&str, u64)> = Default::default();
    for m in marks {
        ord_of_key.insert(m[1].as_u64().unwrap(), m[4].as_u64().unwrap() as usize);
        mark_of_key.insert(m[1].as_u64().unwrap(), (m[0].as_str().unwrap(), m[2].as_u64().unwrap()));
    }
    let unit: usize = if cfg.use_tabs { 1 } else { cfg.tab_width as usize };
    let first_on_line = |ord: usize| -> bool {
        if ord == 0 {
            return true;
        }
        out[plain[ord - 1].end()..plain[ord].content_start()].contains('\n')
    };
    // is the block opened by `key` (or any block around it) an anonymous routine that was kept on its parent's line?
    // the nearest enclosing anonymous routine that was kept on its parent's line (0: none)
    let anon_of = |mut key: u64| -> u64 {
        let mut guard = 0;
        while key != 0 && guard < 10_000 {
            guard += 1;
            let Some((kind, refk)) = mark_of_key.get(&key) else { return 0 };
            if *kind == "A" {
                if let Some(&o) = ord_of_key.get(&key) {
                    if o < plain.len() && !first_on_line(o) {
                        return key;
                    }
                }
            }
            key = *refk;
        }
        0
    };
    // ... and only a SMALL one is kept there deliberately: at most one statement or declaration in it, nested ones included
    let inline_anon = |key: u64| -> bool {
        let a = anon_of(key);
        a != 0 && marks.iter().filter(|m| matches!(m[0].as_str().unwrap(), "S" | "U" | "D") && anon_of(m[2].as_u64().unwrap()) == a).count() <= 1
    };
    for m in marks {
        let kind = m[0].as_str().unwrap();
        let (refk, delta, ord) = (m[2].as_u64().unwrap(), m[3].as_u64().unwrap() as usize, m[4].as_u64().unwrap() as usize);
        if ord >= plain.len() {
            continue;
        }
        let applies = matches!(kind, "S" | "D" | "C" | "U" | "E") || (kind == "B" && cfg.begin_style == "always_wrap") || (kind == "T" && refk == 0);
        if !applies {
            continue;
        }
        let tok = plain[ord];
        let what = match kind { "S" => "statement", "D" => "declaration", "C" => "block closer", "T" => "file-level declaration item", "U" => "body statement", "E" => "else", _ => "begin" };
        if !first_on_line(ord) {
            let site = if inline_anon(refk) { " [site: inside an anonymous routine that is kept on its parent's line]" } else { "" };
            res.push(Viol { prop: "C05", clause: "own_line", detail: format!("{what} {:?} (plain token {ord}) does not start its line: {:?}{site}", tok.text(out), context(out, tok.content_start())) });
            continue;
        }
        let li = line_of(out, tok.content_start());
        let pure = if cfg.use_tabs { li.indent.chars().all(|c| c == '\t') } else { li.indent.chars().all(|c| c == ' ') };
        if !pure || unit == 0 {
            skipped += 1;
            continue;
        }
        // indentation of the opener's line
        let base = if refk == 0 {
            Some(0usize)
        } else {
            match ord_of_key.get(&refk) {
                Some(&ro) if ro < plain.len() && first_on_line(ro) => {
                    let rl = line_of(out, plain[ro].content_start());
                    Some(rl.indent.len())
                }
                _ => None,
            }
        };
        let Some(base) = base else {
            skipped += 1;
            continue;
        };
        let want = if refk == 0 { 0 } else { base + delta * unit };
        checked += 1;
        if li.indent.len() != want {
            let opener = ord_of_key.get(&refk).map(|o| format!(" [opener {o}]")).unwrap_or_default();
            res.push(Viol { prop: "C05", clause: "depth", detail: format!("{what} {:?} (plain token {ord}) is indented {} but its block opener's line is indented {base} (expected {want}): {:?}{opener}", tok.text(out), li.indent.len(), context(out, tok.content_start())) });
        }
    }
    (res, checked, skipped)
}

pub fn context(s: &str, pos: usize) -> String {
    let mut a = pos.saturating_sub(60);
    while !s.is_char_boundary(a) {
        a -= 1;
    }
    let mut b = (pos + 40).min(s.len());
    while !s.is_char_boundary(b) {
        b += 1;
    }
    s[a..b].to_string()
}

// ---------------------------------------------------------------- C12: multi-line literals

pub fn c12(text: &str, tin: &[Tok], out: &str, tout: &[Tok], cfg: &Cfg, verbatim: &[bool]) -> (Vec<Viol>, u64) {
    let mut res = vec![];
    let a: Vec<&Tok> = tin.iter().filter(|t| t.kind == "TextLiteral(MultiLine)").collect();
    let b: Vec<&Tok> = tout.iter().filter(|t| t.kind == "TextLiteral(MultiLine)").collect();
    if a.len() != b.len() {
        if !a.is_empty() {
            res.push(Viol { prop: "C12", clause: "literal_count", detail: format!("{} multi-line literals in the input, {} in the output", a.len(), b.len()) });
        }
        return (res, 0);
    }
    let nl = cfg.nl();
    let mut n = 0;
    for (k, (x, y)) in a.iter().zip(&b).enumerate() {
        let (tx, ty) = (x.text(text), y.text(out));
        n += 1;
        let qualifies = ml_value(tx).is_some();
        let in_region = verbatim.get(k).copied().unwrap_or(false);
        if !(qualifies && cfg.format_multiline_strings) || in_region {
            if tx != ty {
                res.push(Viol { prop: "C12", clause: "verbatim", detail: format!("literal {k} must be reproduced byte for byte ({}): {:?} -> {:?}", if in_region { "inside a verbatim region" } else if qualifies { "format_multiline_strings=false" } else { "indentation rule not met" }, tx, ty) });
            }
            continue;
        }
        // named deviation of the implementation (MLString.tla: ImplQualifies): a blank interior line must be a prefix of the
        // closing indentation, otherwise the literal is left as it is
        let site = {
            let lines = ml_lines(tx);
            let base = leading_blanks(lines[lines.len() - 1]);
            if lines[1..lines.len() - 1].iter().any(|l| !l.starts_with(base) && !base.starts_with(l)) {
                " [site: a blank interior line is not a prefix of the closing indentation]"
            } else {
                ""
            }
        };
        match ml_value(ty) {
            Some(v) if Some(&v) == ml_value(tx).as_ref() => {}
            other => {
                res.push(Viol { prop: "C12", clause: "value", detail: format!("literal {k}: value {:?} -> {:?}", ml_value(tx), other) });
                continue;
            }
        }
        // indentation of the opening quotes' line, interior lines, closing quotes; terminators
        let li = line_of(out, y.content_start());
        let opening_first = out[li.start..y.content_start()].chars().all(|c| c == ' ' || c == '\t');
        let lines = ml_lines(ty);
        let quotes_only = |s: &str| s.chars().all(|c| c == '\'');
        if opening_first {
            for (j, l) in lines.iter().enumerate().skip(1) {
                let last = j + 1 == lines.len();
                let ok = if last {
                    l.strip_prefix(li.indent.as_str()).is_some_and(quotes_only)
                } else {
                    l.is_empty() || l.starts_with(li.indent.as_str())
                };
                if !ok {
                    res.push(Viol { prop: "C12", clause: "indentation", detail: format!("literal {k}: line {j} {:?} is not indented like the opening quotes' line ({:?}){site}", l, li.indent) });
                    break;
                }
            }
        }
        let body_wo_nl = ty.replace(nl, "");
        if body_wo_nl.contains('\n') || body_wo_nl.contains('\r') {
            res.push(Viol { prop: "C12", clause: "terminators", detail: format!("literal {k}: interior terminators are not all the configured one: {:?}{site}", ty) });
        }
    }
    (res, n)
}
