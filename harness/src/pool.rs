//! Worker processes with a watchdog. The parent hands tasks (index ranges of a suite) to worker processes; a worker
//! that makes no progress for `timeout_ms` reports the input it is stuck on and exits; a worker that dies is
//! re-run in careful mode to find the input that killed it. Hangs and crashes are observations (C04), not tool errors.

use serde_json::{json, Value};
use std::io::{BufRead, BufReader, Write};
use std::process::{Child, Command, Stdio};
use std::sync::atomic::{AtomicI64, AtomicU64, Ordering};
use std::sync::mpsc;
use std::sync::Arc;
use std::time::{Duration, Instant};

pub static PROGRESS: AtomicU64 = AtomicU64::new(0);
pub static CURRENT_INDEX: AtomicI64 = AtomicI64::new(-1);

/// Called by the worker before each case.
pub fn at(index: u64) {
    CURRENT_INDEX.store(index as i64, Ordering::SeqCst);
    PROGRESS.fetch_add(1, Ordering::SeqCst);
}

pub fn start_watchdog(timeout_ms: u64, describe: Arc<dyn Fn(u64) -> Value + Send + Sync>, task_id: Arc<AtomicI64>) {
    std::thread::spawn(move || {
        let mut last = PROGRESS.load(Ordering::SeqCst);
        let mut last_change = Instant::now();
        loop {
            std::thread::sleep(Duration::from_millis(20.min(timeout_ms / 4).max(5)));
            let now = PROGRESS.load(Ordering::SeqCst);
            let idx = CURRENT_INDEX.load(Ordering::SeqCst);
            if now != last || idx < 0 {
                last = now;
                last_change = Instant::now();
            } else if last_change.elapsed() > Duration::from_millis(timeout_ms) {
                let line = json!({"t": "hang", "task": task_id.load(Ordering::SeqCst), "index": idx, "case": describe(idx as u64), "timeout_ms": timeout_ms});
                let stdout = std::io::stdout();
                // do not take the lock: the stuck thread may hold it
                let s = format!("\n{}\n", line);
                unsafe {
                    libc_write(1, s.as_bytes());
                }
                drop(stdout);
                std::process::exit(3);
            }
        }
    });
}

/// write(2) without locks
unsafe fn libc_write(fd: i32, buf: &[u8]) {
    extern "C" {
        fn write(fd: i32, buf: *const u8, count: usize) -> isize;
    }
    let mut off = 0;
    while off < buf.len() {
        let n = unsafe { write(fd, buf.as_ptr().add(off), buf.len() - off) };
        if n <= 0 {
            break;
        }
        off += n as usize;
    }
}

struct Worker {
    child: Child,
    stdin: std::process::ChildStdin,
    task: Option<Value>,
    last_at: i64,
}

enum Msg {
    Line(usize, String),
    Closed(usize),
}

fn spawn_worker(slot: usize, exe: &str, timeout_ms: u64, tx: mpsc::Sender<Msg>, generation: u64) -> Worker {
    let mut child = Command::new(exe)
        .arg("worker")
        .arg(timeout_ms.to_string())
        .stdin(Stdio::piped())
        .stdout(Stdio::piped())
        .stderr(Stdio::null())
        .spawn()
        .expect("spawn worker");
    let stdout = child.stdout.take().unwrap();
    let stdin = child.stdin.take().unwrap();
    std::thread::spawn(move || {
        let _ = generation;
        let r = BufReader::new(stdout);
        for line in r.lines() {
            match line {
                Ok(l) => {
                    if tx.send(Msg::Line(slot, l)).is_err() {
                        return;
                    }
                }
                Err(_) => break,
            }
        }
        let _ = tx.send(Msg::Closed(slot));
    });
    Worker { child, stdin, task: None, last_at: -1 }
}

/// Run all tasks; every worker line (plus synthesized hang/crash lines) is passed to `sink`.
pub fn run_pool(tasks: Vec<Value>, procs: usize, timeout_ms: u64, mut sink: impl FnMut(&Value)) {
    let exe = std::env::current_exe().unwrap().to_string_lossy().to_string();
    let (tx, rx) = mpsc::channel::<Msg>();
    let mut queue: std::collections::VecDeque<Value> = tasks.into();
    let mut workers: Vec<Option<Worker>> = Vec::new();
    let mut gen = 0u64;
    for slot in 0..procs {
        gen += 1;
        workers.push(Some(spawn_worker(slot, &exe, timeout_ms, tx.clone(), gen)));
    }
    let mut give = |w: &mut Worker, queue: &mut std::collections::VecDeque<Value>| -> bool {
        if let Some(t) = queue.pop_front() {
            let line = format!("{}\n", t);
            w.last_at = t["start"].as_i64().unwrap_or(0) - 1;
            w.task = Some(t);
            w.stdin.write_all(line.as_bytes()).is_ok() && w.stdin.flush().is_ok()
        } else {
            w.task = None;
            true
        }
    };
    for w in workers.iter_mut().flatten() {
        give(w, &mut queue);
    }
    let mut busy = |ws: &Vec<Option<Worker>>| ws.iter().flatten().filter(|w| w.task.is_some()).count();
    while busy(&workers) > 0 {
        let msg = match rx.recv_timeout(Duration::from_secs(600)) {
            Ok(m) => m,
            Err(_) => {
                sink(&json!({"t": "tool_error", "detail": "pool stalled for 600 s"}));
                break;
            }
        };
        match msg {
            Msg::Line(slot, l) => {
                if l.trim().is_empty() {
                    continue;
                }
                let Ok(v) = serde_json::from_str::<Value>(&l) else {
                    sink(&json!({"t": "tool_error", "detail": format!("unparsable worker line: {}", &l[..l.len().min(200)])}));
                    continue;
                };
                let Some(w) = workers[slot].as_mut() else { continue };
                match v["t"].as_str() {
                    Some("at") => w.last_at = v["index"].as_i64().unwrap_or(w.last_at),
                    Some("done") => {
                        sink(&v);
                        give(w, &mut queue);
                    }
                    Some("hang") => {
                        sink(&v);
                        // the worker exits after this line; resume after the stuck index
                        if let Some(mut t) = w.task.take() {
                            let idx = v["index"].as_i64().unwrap_or(w.last_at);
                            t["start"] = json!(idx + 1);
                            if t["start"].as_i64() < t["end"].as_i64() {
                                queue.push_front(t);
                            }
                        }
                    }
                    _ => sink(&v),
                }
            }
            Msg::Closed(slot) => {
                let Some(mut w) = workers[slot].take() else { continue };
                let status = w.child.wait().ok();
                if let Some(mut t) = w.task.take() {
                    // died without a hang line: find the culprit in careful mode
                    if t["careful"].as_bool() == Some(true) {
                        let idx = w.last_at.max(t["start"].as_i64().unwrap_or(0));
                        sink(&json!({"t": "crash", "task": t["id"], "index": idx, "status": format!("{:?}", status), "suite": t["suite"], "params_hint": t["label"]}));
                        t["start"] = json!(idx + 1);
                    } else {
                        t["careful"] = json!(true);
                        t["start"] = json!(w.last_at.max(t["start"].as_i64().unwrap_or(0)));
                    }
                    if t["start"].as_i64() < t["end"].as_i64() {
                        queue.push_front(t);
                    }
                }
                gen += 1;
                let mut nw = spawn_worker(slot, &exe, timeout_ms, tx.clone(), gen);
                give(&mut nw, &mut queue);
                workers[slot] = Some(nw);
            }
        }
        // hand out work to idle workers (after a resume was pushed)
        for w in workers.iter_mut().flatten() {
            if w.task.is_none() && !queue.is_empty() {
                give(w, &mut queue);
            }
        }
    }
    for w in workers.iter_mut().flatten() {
        let _ = w.child.kill();
        let _ = w.child.wait();
    }
}
