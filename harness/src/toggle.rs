//! Mirror of spec/Toggle.tla: recognising `pasfmt off` / `pasfmt on` comments and computing verbatim regions.

use crate::obs::Tok;

#[derive(Debug, Clone, Copy, PartialEq, Eq)]
pub enum Toggle {
    On,
    Off,
}

fn is_ascii_ws(b: u8) -> bool {
    matches!(b, b' ' | b'\t' | b'\n' | 0x0C | b'\r')
}

/// `text` is the full text of a comment token.
pub fn parse_toggle(text: &str) -> Option<Toggle> {
    let body = text
        .strip_prefix("//")
        .or_else(|| text.strip_prefix("(*"))
        .or_else(|| text.strip_prefix('{'))?;
    let b = body.as_bytes();
    let mut i = 0;
    while i < b.len() && is_ascii_ws(b[i]) {
        i += 1;
    }
    if b.len() < i + 6 || !b[i..i + 6].eq_ignore_ascii_case(b"pasfmt") {
        return None;
    }
    i += 6;
    let ws_start = i;
    while i < b.len() && is_ascii_ws(b[i]) {
        i += 1;
    }
    if i == ws_start {
        return None;
    }
    let w_start = i;
    while i < b.len() && b[i].is_ascii_alphanumeric() {
        i += 1;
    }
    let word = &b[w_start..i];
    if word.eq_ignore_ascii_case(b"on") {
        Some(Toggle::On)
    } else if word.eq_ignore_ascii_case(b"off") {
        Some(Toggle::Off)
    } else {
        None
    }
}

/// For each token: is it inside a verbatim region (off-comment .. on-comment inclusive, or to the end)?
/// Toggle comments themselves are always marked.
pub fn verbatim_marks(text: &str, toks: &[Tok]) -> Vec<bool> {
    let mut off = false;
    toks.iter()
        .map(|t| {
            let mut on_toggle = false;
            if t.is_comment() {
                match parse_toggle(t.text(text)) {
                    Some(Toggle::Off) => {
                        off = true;
                        on_toggle = true;
                    }
                    Some(Toggle::On) => {
                        off = false;
                        on_toggle = true;
                    }
                    None => {}
                }
            }
            off || on_toggle
        })
        .collect()
}

/// Byte ranges of the verbatim regions of `text`: from the first byte of an off-comment to the last byte of the next
/// on-comment (or the end of the text).
pub fn regions(text: &str, toks: &[Tok]) -> Vec<(usize, usize, bool)> {
    // (start, end, open): open = the region is not closed by an on-comment and runs to the end of the text
    let mut res = vec![];
    let mut start: Option<usize> = None;
    for t in toks {
        if !t.is_comment() {
            continue;
        }
        match parse_toggle(t.text(text)) {
            Some(Toggle::Off) if start.is_none() => start = Some(t.content_start()),
            Some(Toggle::On) => {
                if let Some(s) = start.take() {
                    res.push((s, t.end(), false));
                }
            }
            _ => {}
        }
    }
    if let Some(s) = start {
        res.push((s, text.len(), true));
    }
    res
}
