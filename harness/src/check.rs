//! Per-case checking: drives the real formatter through the history that each property needs, evaluates the fast
//! monitors, and builds the session (calls + relations) that TLC re-decides.

use crate::gen::*;
use crate::mon::*;
use crate::obs::*;
use pasfmt_core::prelude::Formatter;
use serde_json::{json, Value};
use std::collections::HashMap;

pub struct Ctx {
    pub fmts: HashMap<Cfg, Formatter>,
    pub runs: u64,
}

impl Ctx {
    pub fn new() -> Self {
        Ctx { fmts: HashMap::new(), runs: 0 }
    }
    /// building the formatter from a configuration is part of every run: a panic there is an abort of that run
    pub fn formatter(&mut self, cfg: &Cfg) -> Result<&Formatter, String> {
        if !self.fmts.contains_key(cfg) {
            let f = guarded(|| cfg.formatter()).map_err(|p| format!("while building the formatter for {:?}: {p}", cfg))?;
            self.fmts.insert(cfg.clone(), f);
        }
        Ok(&self.fmts[cfg])
    }
    pub fn run(&mut self, text: &str, cfg: &Cfg, cursors: &[u32], record: bool) -> Run {
        self.runs += 1;
        let (out, cursors_out, events) = match self.formatter(cfg) {
            Ok(f) => format_with(f, text, cursors, record),
            Err(p) => (Err(p), vec![], vec![]),
        };
        Run { text: text.to_owned(), cfg: cfg.clone(), cursors_in: cursors.to_vec(), out, cursors_out, events }
    }
    pub fn fmt(&mut self, text: &str, cfg: &Cfg) -> Result<String, String> {
        self.runs += 1;
        let f = self.formatter(cfg)?;
        fmt(f, text)
    }
}

pub fn cfg_json(c: &Cfg) -> Value {
    json!({
        "wrap": if c.wrap_column > 1_000_000 { 1_000_000 } else { c.wrap_column },
        "always_wrap": c.begin_style == "always_wrap",
        "fms": c.format_multiline_strings,
        "tabs": c.use_tabs,
        "tw": c.tab_width,
        "ci": c.continuation_indents,
        "crlf": c.line_ending == "crlf",
    })
}

/// The record of one call as handed to the trace specification.
pub fn call_json(run: &Run, well_formed: bool) -> Value {
    let text = &run.text;
    let mut v = json!({
        "cfg": cfg_json(&run.cfg),
        "wf": well_formed,
        "in": cps(text),
        "inb": text.len(),
    });
    match &run.out {
        Err(p) => {
            v["panic"] = json!(p);
            v["ok"] = json!(false);
        }
        Ok(out) => {
            v["ok"] = json!(true);
            v["out"] = json!(cps(out));
            v["outb"] = json!(out.len());
            if let Ok(tin) = lex(text) {
                v["tin"] = toks_json(text, &tin);
            }
            if let Ok(tout) = lex(out) {
                v["tout"] = toks_json(out, &tout);
            }
            if let Ok((kinds, lines)) = parse(text) {
                v["pkinds"] = json!(kinds);
                v["plines"] = Value::Array(
                    lines
                        .iter()
                        .map(|l| {
                            json!({
                                "parent": match l.parent { Some((a, b)) => json!([a + 1, b + 1]), None => json!([]) },
                                "level": l.level,
                                "tokens": l.tokens.iter().map(|i| i + 1).collect::<Vec<_>>(),
                                "typ": l.typ,
                            })
                        })
                        .collect(),
                );
            }
            if let Some(fin) = final_stage(&run.events) {
                if let Ok(sp) = spans(out, fin) {
                    // final table: [ignored, ws_len(cp), text_len(cp), nl, ind, cont, sp, kind, text changed?]
                    let lexs = lex_stage(&run.events);
                    let tab: Vec<Value> = (0..sp.len())
                        .map(|i| {
                            let same = lexs.is_some_and(|l| l.texts.len() == fin.texts.len() && l.texts[i] == fin.texts[i]);
                            json!([
                                fin.fmt[i][0],
                                out[sp[i].ws_start..sp[i].start].chars().count(),
                                out[sp[i].start..sp[i].end].chars().count(),
                                fin.fmt[i][1],
                                fin.fmt[i][2],
                                fin.fmt[i][3],
                                fin.fmt[i][4],
                                fin.kinds[i],
                                same
                            ])
                        })
                        .collect();
                    v["ftab"] = Value::Array(tab);
                    if !run.cursors_in.is_empty() {
                        if let Some(l) = lexs {
                            // byte view for cursors: per token [start_in, len_in, start_out]
                            let mut pos = 0usize;
                            let mut bt = vec![];
                            for i in 0..l.texts.len().min(sp.len()) {
                                pos += l.ws[i].len();
                                bt.push(json!([pos, l.texts[i].len(), sp[i].start]));
                                pos += l.texts[i].len();
                            }
                            v["btab"] = Value::Array(bt);
                        }
                        v["cur"] = Value::Array(
                            run.cursors_in
                                .iter()
                                .zip(&run.cursors_out)
                                .map(|(o, n)| {
                                    let nb = (*n as usize) <= out.len() && out.is_char_boundary(*n as usize);
                                    json!([(*o).min(1_000_000_000), (*n).min(1_000_000_000), nb])
                                })
                                .collect(),
                        );
                    }
                }
            }
        }
    }
    v
}

/// A call record for the properties of the scanner / parser alone (no formatting).
pub fn scan_only_call_json(run: &Run, well_formed: bool) -> Value {
    let text = &run.text;
    let mut v = json!({"cfg": cfg_json(&run.cfg), "wf": well_formed, "in": cps(text), "inb": text.len(), "ok": true, "out": [], "outb": 0});
    if let Ok(tin) = lex(text) {
        v["tin"] = toks_json(text, &tin);
    }
    if let Ok((kinds, lines)) = parse(text) {
        v["pkinds"] = json!(kinds);
        v["plines"] = lines_json(&lines);
    }
    v
}

pub fn lines_json(lines: &[Line]) -> Value {
    Value::Array(
        lines
            .iter()
            .map(|l| {
                json!({
                    "parent": match l.parent { Some((a, b)) => json!([a + 1, b + 1]), None => json!([]) },
                    "level": l.level,
                    "tokens": l.tokens.iter().map(|i| i + 1).collect::<Vec<_>>(),
                    "typ": l.typ,
                })
            })
            .collect(),
    )
}

#[derive(Default)]
pub struct Session {
    pub calls: Vec<Value>,
    pub rels: Vec<Value>,
}

impl Session {
    pub fn call(&mut self, run: &Run, wf: bool) -> usize {
        self.calls.push(call_json(run, wf));
        self.calls.len()
    }
    pub fn rel(&mut self, rel: &str, a: usize, b: usize) {
        self.rels.push(json!({"rel": rel, "a": a, "b": b}));
    }
    pub fn to_json(&self) -> Value {
        json!({"calls": self.calls, "rels": self.rels})
    }
}

pub struct CaseResult {
    pub viols: Vec<Viol>,
    pub session: Session,
    /// per-property count of non-trivial evaluations (antecedent held)
    pub nontrivial: HashMap<&'static str, u64>,
    pub skipped_precondition: u64,
}

fn has(props: &[String], p: &str) -> bool {
    props.iter().any(|x| x == p)
}

pub fn crlf_of(s: &str) -> String {
    s.replace("\r\n", "\n").replace('\n', "\r\n")
}

/// true if `toks` (tokens of the input) contain a line-spanning token that is kept verbatim (C09 precondition).
pub fn has_verbatim_line_spanning(text: &str, toks: &[Tok], cfg: &Cfg) -> bool {
    let mut in_asm = false;
    for t in toks {
        let tx = t.text(text);
        if t.is_comment() && crate::toggle::parse_toggle(tx).is_some() {
            return true;
        }
        if t.kind == "Keyword(Asm)" {
            in_asm = true;
        }
        if in_asm {
            return true;
        }
        if tx.contains(['\n', '\r']) {
            if t.kind == "TextLiteral(MultiLine)" {
                if !cfg.format_multiline_strings || ml_value(tx).is_none() {
                    return true;
                }
            } else {
                return true;
            }
        }
    }
    false
}

/// The lines of a run that have no wrapping solution: a site string for the violation details (which comment is the
/// cause, named by its neighbours) and the set of tokens of those lines (with their child lines).
fn unsolved_info(ctx: &mut Ctx, text: &str, cfg: &Cfg, run: &Run, tin: &[Tok]) -> (String, std::collections::HashSet<usize>) {
    let mut all_toks: std::collections::HashSet<usize> = std::collections::HashSet::new();
    let site: String = match final_stage(&run.events) {
        Some(fin) if has_step(&run.events, "wrap_unsolved") => {
            // why has the line no solution? (classified so that a known finding can name the exact situation)
            let mut reasons: Vec<&str> = vec![];
            let mut culprits: Vec<String> = vec![];
            for a in step_args(&run.events, "wrap_unsolved") {
                let li = a[0] as usize;
                let mut toks: Vec<usize> = vec![];
                let _ = &mut all_toks;
                for (k, l) in fin.lines.iter().enumerate() {
                    let mut anc = Some(k);
                    let mut hit = false;
                    let mut guard = 0;
                    while let Some(x) = anc {
                        if x == li { hit = true; break; }
                        anc = fin.lines[x].parent.map(|p| p.0);
                        guard += 1;
                        if guard > 1000 { break; }
                    }
                    if hit { toks.extend(l.tokens.iter().copied()); }
                }
                all_toks.extend(toks.iter().copied());
                let caret_comment = toks.iter().any(|&t| fin.kinds[t].starts_with("Op(Caret") && fin.kinds.get(t + 1).is_some_and(|k| k.starts_with("Comment(")));
                let any_comment = toks.iter().any(|&t| fin.kinds[t].starts_with("Comment("));
                reasons.push(if caret_comment { "comment directly after a pointer caret" } else if any_comment { "a comment placement the wrapper cannot satisfy" } else { "unclassified" });
                // which comment is it? the one whose removal gives the line a solution; named by its neighbours
                if any_comment && tin.len() == fin.kinds.len() {
                    toks.sort_unstable();
                    toks.dedup();
                    let abstract_tok = |t: &Tok| -> String {
                        if t.kind == "Identifier" || t.kind.starts_with("IdentifierOrKeyword") { "id".into() }
                        else if t.kind.starts_with("TextLiteral") || t.kind.starts_with("NumberLiteral") { "lit".into() }
                        else if t.kind == "Eof" { "eof".into() }
                        else { t.text(text).to_ascii_lowercase().replace('[', "lbrack").replace(']', "rbrack") }
                    };
                    let mut found = false;
                    for &t in toks.iter().filter(|&&t| fin.kinds[t].starts_with("Comment(")).take(12) {
                        let (cs, ce) = (tin[t].content_start(), tin[t].end());
                        let mut without = String::with_capacity(text.len());
                        without.push_str(&text[..cs]);
                        without.push(' ');
                        without.push_str(&text[ce..]);
                        let r2 = ctx.run(&without, cfg, &[], true);
                        let still = step_args(&r2.events, "wrap_unsolved").len();
                        if r2.out.is_ok() && still < step_args(&run.events, "wrap_unsolved").len() {
                            found = true;
                            let prev = (0..t).rev().map(|k| &tin[k]).find(|x| !x.is_comment() && !x.is_directive()).map(|x| abstract_tok(x)).unwrap_or("bof".into());
                            let next = ((t + 1)..tin.len()).map(|k| &tin[k]).find(|x| !x.is_comment() && !x.is_directive()).map(|x| abstract_tok(x)).unwrap_or("eof".into());
                            let own_line = text[..cs].rfind('\n').map(|p| text[p..cs].trim().is_empty()).unwrap_or(text[..cs].trim().is_empty());
                            let adjacent_comment = (t > 0 && tin[t - 1].is_comment()) || tin.get(t + 1).is_some_and(|x| x.is_comment());
                            let kind = if fin.kinds[t].contains("Line)") { "line" } else if fin.kinds[t].contains("Multiline") { "multi" } else { "block" };
                            culprits.push(format!("{prev} <{kind}{}{}> {next}", if own_line { ",own-line" } else { "" }, if adjacent_comment { ",next-to-comment" } else { "" }));
                        }
                    }
                    if !found {
                        // no single comment: all comments of the line together?
                        let mut without = String::with_capacity(text.len());
                        let mut pos = 0usize;
                        let mut sigs = vec![];
                        for &t in toks.iter().filter(|&&t| fin.kinds[t].starts_with("Comment(")) {
                            let (cs, ce) = (tin[t].content_start(), tin[t].end());
                            if cs < pos {
                                continue;
                            }
                            without.push_str(&text[pos..cs]);
                            without.push(' ');
                            pos = ce;
                            let prev = (0..t).rev().map(|k| &tin[k]).find(|x| !x.is_comment() && !x.is_directive()).map(|x| abstract_tok(x)).unwrap_or("bof".into());
                            let next = ((t + 1)..tin.len()).map(|k| &tin[k]).find(|x| !x.is_comment() && !x.is_directive()).map(|x| abstract_tok(x)).unwrap_or("eof".into());
                            let own_line = text[..cs].rfind('\n').map(|p| text[p..cs].trim().is_empty()).unwrap_or(text[..cs].trim().is_empty());
                            let adjacent_comment = (t > 0 && tin[t - 1].is_comment()) || tin.get(t + 1).is_some_and(|x| x.is_comment());
                            let kind = if fin.kinds[t].contains("Line)") { "line" } else if fin.kinds[t].contains("Multiline") { "multi" } else { "block" };
                            sigs.push(format!("{prev} <{kind}{}{}> {next}", if own_line { ",own-line" } else { "" }, if adjacent_comment { ",next-to-comment" } else { "" }));
                        }
                        without.push_str(&text[pos..]);
                        let r2 = ctx.run(&without, cfg, &[], true);
                        if r2.out.is_ok() && step_args(&r2.events, "wrap_unsolved").len() < step_args(&run.events, "wrap_unsolved").len() {
                            let _ = sigs;
                            culprits.push("several comments of the line together".into());
                        } else {
                            culprits.push("not caused by the comments of the line".into());
                        }
                    }
                }
            }
            reasons.sort();
            reasons.dedup();
            culprits.sort();
            culprits.dedup();
            format!(" [site: the program contains a line without a wrapping solution: {}]{}", reasons.join(", "), culprits.iter().map(|c| format!(" [unsolved-culprit: {c}]")).collect::<String>())
        }
        _ => String::new(),
    };
    (site, all_toks)
}

/// Known finding F22: the pass re-flowed a line (a multi-line string was re-indented) and the two results differ only in the
/// blanks in front of comments.
fn reflow_comment_site(run: &Run, a: &str, b: &str) -> &'static str {
    if step_args(&run.events, "reindent_string").is_empty() {
        return "";
    }
    let (ta, tb) = (lex(a).unwrap_or_default(), lex(b).unwrap_or_default());
    if ta.len() != tb.len() {
        return "";
    }
    let differing: Vec<usize> = (0..ta.len()).filter(|&k| ta[k].text(a) != tb[k].text(b) || ta[k].ws(a) != tb[k].ws(b)).collect();
    if !differing.is_empty() && differing.iter().all(|&k| ta[k].is_comment() && ta[k].text(a) == tb[k].text(b)) {
        " [site: a comment is indented differently by the re-flow after strings were re-indented]"
    } else {
        ""
    }
}

/// The site of a C09 difference: F3 (given), else F22 when one of the two runs re-flowed and only comments moved.
fn c09_reflow_site(given: &'static str, runs: &[&Run], a: &str, b: &str) -> &'static str {
    if !given.is_empty() {
        return given;
    }
    runs.iter().map(|r| reflow_comment_site(r, a, b)).find(|s| !s.is_empty()).unwrap_or("")
}

pub fn check_case(ctx: &mut Ctx, case: &Case, cfg: &Cfg, props: &[String], want_session: bool) -> CaseResult {
    let mut res = CaseResult { viols: vec![], session: Session::default(), nontrivial: HashMap::new(), skipped_precondition: 0 };
    let text = &case.text;
    let wf = case.well_formed;
    let mut bump = |res: &mut CaseResult, p: &'static str| *res.nontrivial.entry(p).or_insert(0) += 1;

    // ---- scanning (C13 lossless clauses) and parsing (C14): public lexer / parser
    let tin = match lex(text) {
        Ok(t) => t,
        Err(p) => {
            res.viols.push(Viol { prop: "C04", clause: "lexer_panic", detail: p.clone() });
            if has(props, "C13") {
                res.viols.push(Viol { prop: "C13", clause: "panic", detail: p });
            }
            return res;
        }
    };
    if has(props, "C13") {
        bump(&mut res, "C13");
        if let Some(v) = c13_lossless(text, &tin) {
            res.viols.push(v);
        }
    }
    if case.meta.get("not_as_intended").is_some() {
        *res.nontrivial.entry("not_as_intended").or_insert(0) += 1;
        if has(props, "C13") || has(props, "C02") {
            let p: &'static str = if has(props, "C02") { "C02" } else { "C13" };
            res.viols.push(Viol { prop: p, clause: "generator_intent", detail: format!("a text rendered from a derivation of the grammar (with comments and directives between its tokens) does not scan to the {} tokens the generator wrote: {:?}", case.meta["intended"], crate::mon::context(text, text.len().min(120))) });
        }
    }
    if has(props, "C13") {
        if let Some(g) = case.meta.get("grid") {
            bump(&mut res, "C13");
            let (start, end) = (g["start"].as_u64().unwrap() as usize, g["end"].as_u64().unwrap() as usize);
            let want = g["kind"].as_str().unwrap();
            match tin.iter().find(|t| t.content_start() == start) {
                None => res.viols.push(Viol { prop: "C13", clause: "grid_boundary", detail: format!("no token starts at byte {start}") }),
                Some(t) => {
                    let kind_ok = if want == "KEYWORD" { t.kind.starts_with("Keyword(") } else if want.is_empty() || want.ends_with('(') { t.kind.starts_with(want) } else { t.kind == want };
                    if t.end() != end || !kind_ok {
                        res.viols.push(Viol { prop: "C13", clause: "grid_boundary", detail: format!("word [{start},{end}) {want}: scanner gives [{},{}) {}", t.content_start(), t.end(), t.kind) });
                    }
                }
            }
            let wk = g["wordkind"].as_str().unwrap_or("");
            if matches!(wk, "ident" | "ident_" | "uident" | "kwsuffix" | "keyword") {
                // the CPU-specific routines, one by one (first character already consumed by the dispatcher)
                let first = text[start..].chars().next().map(|c| c.len_utf8()).unwrap_or(1);
                for which in ["generic", "avx2", "dispatched"] {
                    match guarded(|| pasfmt_core::defaults::lexer::verif_find_identifier_end(which, text, start + first)) {
                        Ok(Some(e)) if e != end => res.viols.push(Viol { prop: "C13", clause: "routine_agreement", detail: format!("{which}: identifier [{start},{end}) ends at {e}") }),
                        Ok(_) => {}
                        Err(p) => res.viols.push(Viol { prop: "C13", clause: "routine_panic", detail: format!("{which}: {p}") }),
                    }
                }
            }
        }
    }
    if has(props, "C14") {
        match parse(text) {
            Ok((kinds, lines)) => {
                bump(&mut res, "C14");
                if let Some(v) = c14(tin.len(), &kinds, &lines, wf) {
                    res.viols.push(v);
                }
            }
            Err(p) => res.viols.push(Viol { prop: "C04", clause: "parser_panic", detail: p }),
        }
    }

    // ---- the base call (not needed by the properties of the scanner and parser alone)
    if !props.iter().any(|p| !matches!(p.as_str(), "C13" | "C14")) {
        // (a flagged case is recorded as well: TLC re-decides it)
        if want_session || !res.viols.is_empty() {
            let r = Run { text: text.clone(), cfg: cfg.clone(), cursors_in: vec![], out: Ok(String::new()), cursors_out: vec![], events: vec![] };
            res.session.calls.push(scan_only_call_json(&r, wf));
        }
        return res;
    }
    let base = ctx.run(text, cfg, &[], true);
    let a = if want_session || !props.is_empty() { res.session.call(&base, wf) } else { 0 };
    let out = match &base.out {
        Ok(o) => o.clone(),
        Err(p) => {
            res.viols.push(Viol { prop: "C04", clause: "panic", detail: p.clone() });
            return res;
        }
    };
    bump(&mut res, "C04");
    if has(props, "C04") {
        // work counters (the polynomial clause is decided on counters, not on time): one pass per explored branch at most
        let passes = step_args(&base.events, "pass").len();
        let ncond = tin.iter().filter(|t| t.kind.starts_with("ConditionalDirective(")).count();
        if passes > ncond + 1 {
            res.viols.push(Viol { prop: "C04", clause: "pass_count", detail: format!("{passes} parsing passes for {ncond} conditional directives (bound: directives + 1)") });
        }
        for a in step_args(&base.events, "tally:search_iterations") {
            // [calls, sum, max]: every search stops at the iteration limit
            if a[2] > 20_001 {
                res.viols.push(Viol { prop: "C04", clause: "iteration_limit", detail: format!("a line search ran {} iterations (limit 20000)", a[2]) });
            }
            *res.nontrivial.entry("search_calls").or_insert(0) += a[0] as u64;
            *res.nontrivial.entry("search_iterations").or_insert(0) += a[1] as u64;
        }
        *res.nontrivial.entry("passes").or_insert(0) += passes as u64;
    }
    // what the generator knows travels with the base call (for the TLA+ predicates)
    if a > 0 {
        let cp = |b: usize| cp_offset(text, b.min(text.len()));
        let rec = &mut res.session.calls[a - 1];
        if let Some(pm) = case.meta.get("prog") {
            rec["marks"] = pm["marks"].clone();
            rec["nplain"] = pm["nplain"].clone();
            rec["idents"] = pm.get("idents").cloned().unwrap_or(json!([]));
            rec["regions"] = Value::Array(pm["regions"].as_array().map(|v| v.iter().map(|rg| json!([cp(rg[0].as_u64().unwrap() as usize), cp(rg[1].as_u64().unwrap() as usize), rg.get(2).and_then(|x| x.as_bool()).unwrap_or(false)])).collect()).unwrap_or_default());
        } else {
            if let Some(n) = case.meta.get("intended") {
                rec["intended"] = n.clone();
            }
            rec["regions"] = Value::Array(crate::toggle::regions(text, &tin).iter().map(|(s, e, open)| json!([cp(*s), cp(*e), open])).collect());
        }
        let asm: Vec<usize> = stages(&base.events)
            .iter()
            .find(|st| st.stage == "ignore")
            .map(|st| st.lines.iter().filter(|l| l.line_type == "AsmInstruction").flat_map(|l| l.tokens.iter().map(|t| t + 1)).collect())
            .unwrap_or_default();
        rec["asmtoks"] = json!(asm);
        // the second pass of the line formatter: which literals were rewritten, how many top-level lines were queued
        if want_session {
            if let (Some(fin), Some(n)) = (final_stage(&base.events), step_args(&base.events, "reflow_start").first().map(|a| a[0])) {
                if fin.lines.len() <= 400 {
                    let mut line_of_tok = vec![0usize; fin.kinds.len()];
                    for (k, l) in fin.lines.iter().enumerate() {
                        for &t in &l.tokens {
                            if t < line_of_tok.len() && line_of_tok[t] == 0 {
                                line_of_tok[t] = k + 1;
                            }
                        }
                    }
                    let rewritten: Vec<i64> = step_args(&base.events, "reindent_string").iter().map(|a| a[0] + 1).collect();
                    rec["reflow"] = json!({
                        "parents": fin.lines.iter().map(|l| l.parent.map(|p| p.0 + 1).unwrap_or(0)).collect::<Vec<_>>(),
                        "line_of_tok": line_of_tok,
                        "rewritten": rewritten,
                        "n": n,
                    });
                }
            }
        }
        // the stage snapshots of the real pipeline (small inputs only: TLC re-checks every frame)
        let sts = stages(&base.events);
        if want_session && sts.len() >= 8 && sts[0].kinds.len() <= 120 {
            rec["stages"] = Value::Array(
                sts.iter()
                    .map(|st| {
                        let n = st.kinds.len();
                        json!({
                            "stage": st.stage,
                            "rows": (0..n).map(|i| {
                                let f = st.fmt.get(i).copied().unwrap_or([st.ignored.contains(&i) as u32, 0, 0, 0, 0]);
                                json!({"kind": st.kinds[i], "text": cps(&st.texts[i]), "ws": cps(&st.ws[i]), "ign": f[0] != 0, "nl": f[1], "ind": f[2], "cont": f[3], "sp": f[4]})
                            }).collect::<Vec<_>>(),
                        })
                    })
                    .collect(),
            );
        }
    }
    if has(props, "C01") {
        bump(&mut res, "C01");
        if let Some(v) = c01(text, &tin, &out) {
            res.viols.push(v);
        }
    }
    if has(props, "C08") || has(props, "C09") {
        for v in c08_c09(&base, &out, wf) {
            if has(props, v.prop) || v.prop == "C01" {
                res.viols.push(v);
            }
        }
        bump(&mut res, "C08");
    }
    if has(props, "C10") {
        if let Some(v) = c10_units(&base, &out) {
            res.viols.push(v);
        }
    }

    // ---- properties of well-formed programs that need the re-scanned output
    let needs_tout = ["C02", "C05", "C07", "C12"].iter().any(|p| has(props, p));
    let tout = if needs_tout { lex(&out).ok() } else { None };
    if has(props, "C02") && wf {
        if let Some(tout) = &tout {
            bump(&mut res, "C02");
            let c02v = c02_all(text, &tin, &out, tout, cfg.format_multiline_strings);
            if !c02v.is_empty() {
                res.viols.extend(c02v);
            } else if let Some(ids) = case.meta.get("prog").and_then(|pm| pm.get("idents")).and_then(|x| x.as_array()) {
                // tokens the grammar knows to be identifiers keep their spelling, even when it is that of a contextual keyword
                let pin: Vec<&Tok> = tin.iter().filter(|t| !t.is_comment() && !t.is_directive() && t.kind != "Eof").collect();
                let pout: Vec<&Tok> = tout.iter().filter(|t| !t.is_comment() && !t.is_directive() && t.kind != "Eof").collect();
                if pin.len() == pout.len() {
                    for o in ids {
                        let o = o.as_u64().unwrap() as usize;
                        // (the four portability directives are exempt: whether such a word at the end of a declaration is the
                        // directive or a name is a heuristic in pasfmt, and the unchanged tree already lower-cases some names)
                        let portability = |w: &str| matches!(w.to_ascii_lowercase().as_str(), "library");
                        if o < pin.len() && pin[o].text(text) != pout[o].text(&out) && !portability(pin[o].text(text)) {
                            // where the name stands (for the words platform / deprecated / experimental the unchanged tree
                            // takes the name for the directive in four places: see known finding F18)
                            let word = pin[o].text(text).to_ascii_lowercase();
                            let lower = |k: usize| pin[k].text(text).to_ascii_lowercase();
                            let mut site = String::new();
                            if matches!(word.as_str(), "platform" | "deprecated" | "experimental") && o > 0 {
                                let prev = lower(o - 1);
                                // the declaration the name is in: back to the previous `;`
                                let mut b = o;
                                let mut depth = 0i32;
                                while b > 0 {
                                    match pin[b - 1].text(text) {
                                        ")" | "]" => depth += 1,
                                        "(" | "[" => depth -= 1,
                                        ";" if depth <= 0 => break,
                                        _ => {}
                                    }
                                    b -= 1;
                                }
                                let decl: Vec<String> = (b..o).map(lower).collect();
                                let head = decl.first().map(|x| x.as_str()).unwrap_or("");
                                let in_routine = decl.iter().any(|w| w == "function" || w == "procedure");
                                site = if matches!(head, "unit" | "program" | "package") && decl.iter().skip(1).all(|w| w == "." || w.chars().all(|c| c.is_alphanumeric() || c == '_' || c == '&')) {
                                    " [site: portability word as unit name]".into()
                                } else if prev == "absolute" {
                                    " [site: portability word as absolute target]".into()
                                } else if prev == "of" && in_routine {
                                    " [site: portability word as element type of a routine's result]".into()
                                } else if matches!(prev.as_str(), "read" | "write" | "stored" | "default" | "implements") && decl.iter().any(|w| w == "property") {
                                    " [site: portability word as property accessor]".into()
                                } else {
                                    String::new()
                                };
                            }
                            res.viols.push(Viol { prop: "C02", clause: "identifier_case", detail: format!("identifier {:?} became {:?}: {:?}{site}", pin[o].text(text), pout[o].text(&out), crate::mon::context(&out, pout[o].content_start())) });
                            break;
                        }
                    }
                }
            }
        }
    }
    if has(props, "C12") {
        if let Some(tout) = &tout {
            let vmarks = crate::toggle::verbatim_marks(text, &tin);
            let verbatim_literals: Vec<bool> = tin.iter().zip(&vmarks).filter(|(t, _)| t.kind == "TextLiteral(MultiLine)").map(|(_, m)| *m).collect();
            let (vs, n) = c12(text, &tin, &out, tout, cfg, &verbatim_literals);
            for _ in 0..n {
                bump(&mut res, "C12");
            }
            let moved = moved_string_site(&base);
            for mut v in vs {
                if v.clause == "indentation" {
                    v.detail.push_str(moved);
                }
                res.viols.push(v);
            }
        }
    }
    let (unsolved_site, unsolved_toks) = unsolved_info(ctx, text, cfg, &base, &tin);
    let unsolved_site = unsolved_site.as_str();
    if !unsolved_site.is_empty() && wf {
        *res.nontrivial.entry("unsolved_in_wellformed").or_insert(0) += 1;
    }
    if let Some(pm) = case.meta.get("prog") {
        if has(props, "C05") && wf {
            if let Some(tout) = &tout {
                let plain: Vec<&Tok> = tout.iter().filter(|t| !t.is_comment() && !t.is_directive() && t.kind != "Eof").collect();
                if plain.len() as u64 == pm["nplain"].as_u64().unwrap_or(u64::MAX) {
                    let (vs, checked, skipped) = c05(&out, &plain, pm["marks"].as_array().unwrap(), cfg);
                    for _ in 0..checked {
                        bump(&mut res, "C05");
                    }
                    res.skipped_precondition += skipped;
                    for mut v in vs {
                        // a mark is excused by an unsolved line only when the marked token is in that line (or its child lines)
                        let in_unsolved = v.detail.find("(plain token ").and_then(|p| v.detail[p + 13..].split(')').next().and_then(|n| n.parse::<usize>().ok()))
                            .and_then(|ord| plain.get(ord)).and_then(|t| tout.iter().position(|x| x.start == t.start))
                            .map(|k| tin.len() != tout.len() || unsolved_toks.contains(&k) || (k > 0 && unsolved_toks.contains(&(k - 1))))
                            .unwrap_or(true);
                        if in_unsolved {
                            v.detail.push_str(unsolved_site);
                        }
                        // the violating token is the `[` of an attribute whose `]` is followed by a conditional directive (F25)
                        if v.clause == "depth" {
                            if let Some(ord) = v.detail.find("(plain token ").and_then(|p| v.detail[p + 13..].split(')').next().and_then(|n| n.parse::<usize>().ok())) {
                                if let Some(t) = plain.get(ord) {
                                    if t.text(&out) == "[" {
                                        if let Some(k) = tout.iter().position(|x| x.start == t.start) {
                                            let mut depth = 0i32;
                                            let mut j = k;
                                            while j < tout.len() {
                                                match tout[j].text(&out) { "[" => depth += 1, "]" => { depth -= 1; if depth == 0 { break; } } _ => {} }
                                                j += 1;
                                            }
                                            let next = ((j + 1)..tout.len()).find(|&x| !tout[x].is_comment());
                                            if next.is_some_and(|x| tout[x].kind.starts_with("ConditionalDirective(")) {
                                                v.detail.push_str(" [site: attribute followed by a conditional directive]");
                                            }
                                        }
                                    }
                                }
                            }
                        }
                        // the opener is `strict <comment> private|protected`: the comment hides the visibility keyword from the
                        // parser's look-ahead and `strict` is taken for a name (known finding F21)
                        if let Some(ro) = v.detail.find("[opener ").and_then(|p| v.detail[p + 8..].split(']').next().and_then(|n| n.parse::<usize>().ok())) {
                            if let Some(t) = plain.get(ro) {
                                if t.text(&out).eq_ignore_ascii_case("strict") {
                                    if let Some(k) = tout.iter().position(|x| x.start == t.start) {
                                        if tout.get(k + 1).is_some_and(|x| x.is_comment()) {
                                            v.detail.push_str(" [site: comment between `strict` and the visibility keyword]");
                                        }
                                    }
                                }
                            }
                        }
                        res.viols.push(v);
                    }
                } else {
                    res.skipped_precondition += 1;
                }
            }
        }
        if has(props, "C06") && wf {
            for alt in pm["alts"].as_array().unwrap() {
                let alt = alt.as_str().unwrap();
                let r2 = ctx.run(alt, cfg, &[], false);
                let b = res.session.call(&r2, wf);
                res.session.rel("relayout", a, b);
                bump(&mut res, "C06");
                if let Ok(o2) = &r2.out {
                    if *o2 != out {
                        let lit_site = if only_space_after_literal_differs(&out, o2) { " [site: zero or one space after a literal / unknown character is taken from the input]" } else { "" };
                        // the difference is excused only when every token whose text or leading blanks differ belongs to a line
                        // without a wrapping solution (F7) or to a logical line that is partly inside a verbatim region (F20),
                        // in either run
                        let mut site = String::new();
                        {
                            let r2r = ctx.run(alt, cfg, &[], true);
                            let tin2 = lex(alt).unwrap_or_default();
                            let (site2, toks2) = unsolved_info(ctx, alt, cfg, &r2r, &tin2);
                            let partial = |run: &Run, txt: &str, tk: &[Tok]| -> std::collections::HashSet<usize> {
                                let mut res = std::collections::HashSet::new();
                                if let Some(fin) = final_stage(&run.events) {
                                    let vm = crate::toggle::verbatim_marks(txt, tk);
                                    if vm.len() == fin.kinds.len() {
                                        let mixed: Vec<bool> = fin.lines.iter().map(|l| l.tokens.iter().any(|&t| vm[t]) && l.tokens.iter().any(|&t| !vm[t])).collect();
                                        let touched: Vec<bool> = fin.lines.iter().map(|l| l.tokens.iter().any(|&t| vm[t]) || format!("{:?}", l.line_type).contains("Voided")).collect();
                                        for (k, l) in fin.lines.iter().enumerate() {
                                            // the line itself, or a child line of a line that has verbatim tokens
                                            let mut anc = l.parent.map(|p| p.0);
                                            let mut under = false && mixed[k];
                                            let mut guard = 0;
                                            while let Some(x) = anc {
                                                if touched[x] { under = true; break; }
                                                anc = fin.lines[x].parent.map(|p| p.0);
                                                guard += 1;
                                                if guard > 1000 { break; }
                                            }
                                            if under {
                                                res.extend(l.tokens.iter().copied());
                                            }
                                        }
                                    }
                                }
                                res
                            };
                            let (p1, p2) = (partial(&base, text, &tin), partial(&r2r, alt, &tin2));
                            let (ta, tb) = (lex(&out).unwrap_or_default(), lex(o2).unwrap_or_default());
                            let mut used_unsolved = false;
                            let mut used_partial = false;
                            let excused = ta.len() == tb.len() && ta.len() == tin.len() && (0..ta.len()).all(|k| {
                                if ta[k].text(&out) == tb[k].text(o2) && ta[k].ws(&out) == tb[k].ws(o2) {
                                    return true;
                                }
                                if unsolved_toks.contains(&k) || toks2.contains(&k) || (k > 0 && (unsolved_toks.contains(&(k - 1)) || toks2.contains(&(k - 1)))) {
                                    used_unsolved = true;
                                    return true;
                                }
                                if p1.contains(&k) || p2.contains(&k) {
                                    used_partial = true;
                                    return true;
                                }
                                false
                            });
                            if excused {
                                if used_unsolved {
                                    site = format!("{unsolved_site}{}", if site2 != unsolved_site { site2.as_str() } else { "" });
                                }
                                if used_partial {
                                    site.push_str(" [site: logical line partly inside a verbatim region]");
                                }
                            }
                        }
                        res.viols.push(Viol { prop: "C06", clause: "layout_independent", detail: format!("{}{site}{lit_site}", first_diff(&out, o2)) });
                    }
                }
            }
        }
        if has(props, "C07") {
            for rg in pm["regions"].as_array().unwrap() {
                let (s, e) = (rg[0].as_u64().unwrap() as usize, rg[1].as_u64().unwrap() as usize);
                let open = rg.get(2).and_then(|x| x.as_bool()).unwrap_or(false);
                bump(&mut res, "C07");
                // an unclosed region runs to the end of the input and is the end of the output
                let kept = if open { out.ends_with(&text[s..e]) } else { out.contains(&text[s..e]) };
                if !kept {
                    let is_asm = case.label.starts_with("asm#");
                    // the instruction is split only when the line begins or ends with the conditional directive (F16); with
                    // more of the instruction behind the closing directive the line is kept
                    let cond = |w: &str| { let w = w.to_ascii_lowercase(); w.starts_with("{$if") || w.starts_with("{$else") || w.starts_with("{$end") };
                    let edge_directive = text[s..e].lines().any(|l| {
                        let t = l.trim();
                        let has = t.to_ascii_lowercase().contains("{$if");
                        let ends = t.ends_with('}') && t.rfind('{').is_some_and(|p| cond(&t[p..]));
                        let begins = cond(t);
                        has && (ends || begins) && t.len() > t.rfind('{').map(|p| t.len() - p).unwrap_or(0)
                    });
                    let site = if is_asm && edge_directive { " [site: conditional directive at the edge of an asm instruction line]" } else { "" };
                    res.viols.push(Viol { prop: "C07", clause: "region_verbatim", detail: format!("region {:?} is not reproduced byte for byte{site}", &text[s..e]) });
                }
            }
        }
    }
    if has(props, "C07") {
        // every region computed by the specification's toggle recogniser from the scanned input
        let regs = crate::toggle::regions(text, &tin);
        let mut from = 0usize;
        for (s, e, open) in &regs {
            bump(&mut res, "C07");
            let found = if *open { if out[from..].ends_with(&text[*s..*e]) { Some(out.len() - from - (e - s)) } else { None } } else { out[from..].find(&text[*s..*e]) };
            match found {
                Some(p) => from += p + (e - s),
                None => {
                    res.viols.push(Viol { prop: "C07", clause: "region_verbatim", detail: format!("region {:?} is not reproduced byte for byte (in order)", crate::mon::context(text, *s)) });
                    break;
                }
            }
        }
        // the tokens marked as verbatim are exactly those of the regions (and asm instruction lines)
        if let Some(fin) = final_stage(&base.events) {
            if fin.kinds.len() == tin.len() {
                let marks = crate::toggle::verbatim_marks(text, &tin);
                let asm_line_tokens: std::collections::HashSet<usize> = stages(&base.events)
                    .iter()
                    .find(|st| st.stage == "ignore")
                    .map(|st| st.lines.iter().filter(|l| l.line_type == "AsmInstruction").flat_map(|l| l.tokens.iter().copied()).collect())
                    .unwrap_or_default();
                for i in 0..tin.len() {
                    let ignored = fin.fmt[i][0] != 0;
                    if marks[i] && !ignored {
                        res.viols.push(Viol { prop: "C07", clause: "region_marked", detail: format!("token {i} {:?} lies in a verbatim region but is formatted", tin[i].text(text)) });
                        break;
                    }
                    if !marks[i] && ignored && !asm_line_tokens.contains(&i) {
                        res.viols.push(Viol { prop: "C07", clause: "outside_formatted", detail: format!("token {i} {:?} is outside every verbatim region and asm body but is not formatted", tin[i].text(text)) });
                        break;
                    }
                }
            }
        }
    }

    // ---- C03 idempotence
    if has(props, "C03") && wf {
        bump(&mut res, "C03");
        let second = ctx.run(&out, cfg, &[], false);
        let b = res.session.call(&second, wf);
        res.session.rel("idem", a, b);
        match &second.out {
            Ok(o2) if *o2 == out => {}
            Ok(o2) => {
                let moved = moved_string_site(&base);
                let mut site = if !moved.is_empty() { moved } else if has_step(&base.events, "stale_cache_hit") { " [site: re-flow reused a child-line solution cached before strings were re-indented]" } else { "" };
                // only the blanks in front of comments differ, and the first pass re-flowed lines after re-indenting strings
                if site.is_empty() {
                    site = reflow_comment_site(&base, &out, o2);
                }
                res.viols.push(Viol { prop: "C03", clause: "idempotent", detail: format!("{}{site}", first_diff(&out, o2)) })
            }
            Err(p) => res.viols.push(Viol { prop: "C04", clause: "panic", detail: p.clone() }),
        }
    }

    // ---- C03 on a perturbed copy of the output: the first multi-line literal is shifted (its value is unchanged), so
    //      that literals which are already in place and literals which are not meet on one logical line
    if has(props, "C03") && wf && out.contains("\'\'\'\n") {
        if let Ok(tks) = lex(&out) {
            if let Some(t) = tks.iter().find(|t| t.kind == "TextLiteral(MultiLine)" && ml_value(t.text(&out)).is_some()) {
                let lit = t.text(&out);
                let shifted: String = lit.split('\n').enumerate().map(|(k, l)| if k == 0 || l.is_empty() { l.to_string() } else { format!("   {l}") }).collect::<Vec<_>>().join("\n");
                let x2 = format!("{}{}{}", &out[..t.content_start()], shifted, &out[t.end()..]);
                let r1 = ctx.run(&x2, cfg, &[], true);
                if let Ok(y1) = &r1.out {
                    let i1 = res.session.call(&r1, wf);
                    let r2 = ctx.run(y1, cfg, &[], false);
                    let i2 = res.session.call(&r2, wf);
                    res.session.rel("idem", i1, i2);
                    bump(&mut res, "C03");
                    if let Ok(y2) = &r2.out {
                        if y2 != y1 {
                            let moved = moved_string_site(&r1);
                            let mut site = if !moved.is_empty() { moved } else if has_step(&r1.events, "stale_cache_hit") { " [site: re-flow reused a child-line solution cached before strings were re-indented]" } else { "" };
                            if site.is_empty() {
                                site = reflow_comment_site(&r1, y1, y2);
                            }
                            res.viols.push(Viol { prop: "C03", clause: "idempotent", detail: format!("(after shifting the first multi-line literal of the formatted text) {}{site}", first_diff(y1, y2)) });
                        }
                    }
                }
            }
        }
    }

    // ---- C09 line endings
    if has(props, "C09") {
        let shared_ml = final_stage(&base.events).is_some_and(|fin| {
            (0..fin.kinds.len()).any(|i| fin.kinds[i] == "TextLiteral(MultiLine)" && fin.lines.iter().filter(|l| l.tokens.contains(&i)).count() > 1)
        });
        let c09_site = if shared_ml { " [site: multi-line string shared by the logical lines of several conditional branches]" } else { "" };
        // (ii) crlf configuration = lf result with terminators substituted
        let mut other = cfg.clone();
        other.line_ending = if cfg.line_ending == "crlf" { "lf".into() } else { "crlf".into() };
        let r2 = ctx.run(text, &other, &[], true);
        let b = res.session.call(&r2, wf);
        res.session.rel("lecfg", a, b);
        if let Ok(o2) = &r2.out {
            bump(&mut res, "C09");
            if norm_nl(&out) != norm_nl(o2) {
                let site = c09_reflow_site(c09_site, &[&base, &r2], &norm_nl(&out), &norm_nl(o2));
                res.viols.push(Viol { prop: "C09", clause: "crlf_is_lf_substituted", detail: format!("{}{site}", first_diff(&norm_nl(&out), &norm_nl(o2))) });
            }
            for v in c08_c09(&r2, o2, wf) {
                if v.prop == "C09" {
                    res.viols.push(v);
                }
            }
        }
        // (iii) CRLF input = LF input
        if !text.contains('\r') && text.contains('\n') {
            if has_verbatim_line_spanning(text, &tin, cfg) {
                res.skipped_precondition += 1;
            } else {
                let r3 = ctx.run(&crlf_of(text), cfg, &[], true);
                let c = res.session.call(&r3, wf);
                res.session.rel("lein", a, c);
                if let Ok(o3) = &r3.out {
                    if *o3 != out {
                        let site = c09_reflow_site(c09_site, &[&base, &r3], &out, o3);
                        res.viols.push(Viol { prop: "C09", clause: "input_endings", detail: format!("{}{site}", first_diff(&out, o3)) });
                    }
                }
                // mixed endings: some line breaks CRLF, the others LF (two interleavings)
                for phase in 0..2usize {
                    let mut mixed = String::with_capacity(text.len() + 16);
                    let mut k = phase;
                    for ch in text.chars() {
                        if ch == '\n' {
                            if k % 2 == 0 {
                                mixed.push('\r');
                            }
                            k += 1;
                        }
                        mixed.push(ch);
                    }
                    if mixed == *text {
                        continue;
                    }
                    let r4 = ctx.run(&mixed, cfg, &[], true);
                    let d = res.session.call(&r4, wf);
                    res.session.rel("lein", a, d);
                    if let Ok(o4) = &r4.out {
                        if *o4 != out {
                            let site = c09_reflow_site(c09_site, &[&base, &r4], &out, o4);
                            res.viols.push(Viol { prop: "C09", clause: "input_endings", detail: format!("(mixed CRLF / LF input) {}{site}", first_diff(&out, o4)) });
                        }
                    }
                }
            }
        }
    }

    // ---- C10 tabs vs spaces with the width unconstrained
    if has(props, "C10") {
        let mut sp = cfg.clone();
        sp.wrap_column = u32::MAX;
        sp.use_tabs = false;
        let mut tb = sp.clone();
        tb.use_tabs = true;
        let rs = ctx.run(text, &sp, &[], true);
        let rt = ctx.run(text, &tb, &[], true);
        let (ia, ib) = (res.session.call(&rs, wf), res.session.call(&rt, wf));
        res.session.rel("tabs", ia, ib);
        if let (Ok(os), Ok(ot)) = (&rs.out, &rt.out) {
            bump(&mut res, "C10");
            let expanded = expand_leading_tabs(ot, sp.tab_width as usize);
            // beyond 255 columns the two renderings differ by known finding F4; the saturation itself is checked per line
            let over = sp.tab_width as u32 * sp.continuation_indents as u32 > 255;
            let c10_site = "";
            // (a tab in the input can only survive in text that is kept verbatim, which is the same in both results but must
            // not be expanded: for such inputs the per-line clause below decides alone)
            if expanded != *os && !over && !text.contains('\t') {
                res.viols.push(Viol { prop: "C10", clause: "tabs_expand_to_spaces", detail: format!("tab_width={} ci={}: {}{c10_site}", sp.tab_width, sp.continuation_indents, first_diff(os, &expanded)) });
            }
            for r in [&rs, &rt] {
                if let Some(v) = c10_units(r, r.out.as_ref().unwrap()) {
                    res.viols.push(v);
                }
            }
        }
    }

    // ---- C11 wrap_column pairs
    if has(props, "C11") && wf {
        let widths = c11_widths(&out, cfg.wrap_column);
        let mut outs: Vec<(u32, String, usize)> = vec![];
        for w in widths {
            let mut c = cfg.clone();
            c.wrap_column = w;
            let r = ctx.run(text, &c, &[], false);
            let idx = res.session.call(&r, wf);
            if let Ok(o) = r.out {
                outs.push((w, o, idx));
            }
        }
        outs.sort_by_key(|x| x.0);
        for i in 0..outs.len() {
            for j in i + 1..outs.len() {
                let (w1, y1, i1) = &outs[i];
                let (w2, y2, i2) = &outs[j];
                if w1 == w2 {
                    continue;
                }
                res.session.rel("width", *i1, *i2);
                bump(&mut res, "C11");
                let (mb2, mc2) = max_line_len(y2);
                if mb2.max(mc2) <= *w1 as usize && y1 != y2 {
                    // F15 at the level of C11: at one of the widths the re-flow moved a literal whose interior had already been
                    // re-indented for the place the first wrapping gave it
                    let mut site = "";
                    for w in [*w1, *w2] {
                        let mut c2 = cfg.clone();
                        c2.wrap_column = w;
                        let rr = ctx.run(text, &c2, &[], true);
                        if !moved_string_site(&rr).is_empty() {
                            site = moved_string_site(&rr);
                        } else if has_step(&rr.events, "stale_cache_hit") {
                            // F2 at the level of C11: the re-flow at one of the widths reused a child-line solution cached
                            // before strings were re-indented
                            site = " [site: re-flow reused a child-line solution cached before strings were re-indented]";
                        } else if !step_args(&rr.events, "reindent_string").is_empty() {
                            // ... or a literal that was already in place for the first wrapping and is not any more after the re-flow
                            if let (Ok(o), Ok(ti)) = (&rr.out, lex(text)) {
                                if let Ok(to) = lex(o) {
                                    let verb: Vec<bool> = ti.iter().filter(|t| t.kind == "TextLiteral(MultiLine)").map(|_| false).collect();
                                    if c12(text, &ti, o, &to, &c2, &verb).0.iter().any(|v| v.clause == "indentation") {
                                        site = " [site: the re-flow moved a multi-line string after its interior had been re-indented]";
                                    }
                                }
                            }
                        }
                    }
                    res.viols.push(Viol { prop: "C11", clause: "fits_narrower_same_result", detail: format!("W1={w1} W2={w2}: result for W2 has max line {mb2} but differs: {}{site}", first_diff(y2, y1)) });
                }
                if line_count(y2) > line_count(y1) {
                    // F5: some CODE of the narrower result does not fit (a line that is too long even without its trailing
                    // line comment); F10: both results fit their own widths. A narrower result whose only over-long lines
                    // are over-long because of a trailing comment is neither.
                    let code_len = |l: &str| -> usize {
                        let code = match l.find("//") { Some(p) if !l[..p].contains('\'') || l[..p].matches('\'').count() % 2 == 0 => &l[..p], _ => l };
                        code.trim_end().chars().count()
                    };
                    let code_overflows = y1.lines().any(|l| code_len(l) > *w1 as usize);
                    let fits1 = max_line_len(y1).0 <= *w1 as usize;
                    let fits2 = max_line_len(y2).0 <= *w2 as usize;
                    // F24: the narrower result is too long only where a trailing line comment does not fit (its code fits);
                    // F19 at this clause: the narrower result fits and the wider one does not (the search missed a fitting
                    // solution at the wider width: identified by input, like the third clause)
                    let site = if code_overflows { " [site: the narrower width cannot be honoured - its own result has lines longer than W1]" }
                               else if fits1 && fits2 { " [site: both results fit their own widths]" }
                               else if !fits1 { " [site: the narrower result is too long only where a trailing comment does not fit]" }
                               else { " [site: the wider result does not fit its own width although the narrower one fits]" };
                    res.viols.push(Viol { prop: "C11", clause: "wider_not_more_lines", detail: format!("W1={w1} -> {} lines, W2={w2} -> {} lines{site}", line_count(y1), line_count(y2)) });
                }
                let (mb1, _) = max_line_len(y1);
                if mb1 <= *w1 as usize && mc2 > *w2 as usize {
                    res.viols.push(Viol { prop: "C11", clause: "fits_stays_fitting", detail: format!("fits at W1={w1} (max {mb1}) but max line at W2={w2} is {mc2}") });
                }
            }
        }
    }

    // ---- C15 cursors
    if has(props, "C15") {
        let mut cursors = cursor_offsets(text, &tin, 400);
        // the list is "any finite list": ascending, descending, interleaved from both ends, with repetitions
        match text.len() % 4 {
            1 => cursors.reverse(),
            2 => {
                let (mut lo, mut hi) = (0usize, cursors.len());
                let mut w = Vec::with_capacity(cursors.len() + 2);
                while lo < hi {
                    hi -= 1;
                    w.push(cursors[hi]);
                    if lo < hi {
                        w.push(cursors[lo]);
                        lo += 1;
                    }
                }
                if let Some(&f) = w.first() {
                    w.push(f);
                }
                cursors = w;
            }
            3 => {
                let n = cursors.len();
                let mut w: Vec<u32> = (0..n).map(|k| cursors[(k * 7 + 3) % n.max(1)]).collect();
                w.extend(cursors.iter().copied());
                cursors = w;
            }
            _ => {}
        }
        let rc = ctx.run(text, cfg, &cursors, true);
        let b = res.session.call(&rc, wf);
        res.session.rel("cursor", a, b);
        match &rc.out {
            Err(p) => {
                res.viols.push(Viol { prop: "C04", clause: "panic_with_cursors", detail: p.clone() });
                // the same text is formatted without cursors: requesting them changed the result (there is none)
                res.viols.push(Viol { prop: "C15", clause: "text_unchanged", detail: format!("formatting aborts when cursors are tracked (it returns a text without them): {p}") });
            }
            Ok(_) => {
                bump(&mut res, "C15");
                res.viols.extend(c15(&rc, &out));
            }
        }
    }
    res
}

pub fn first_diff(a: &str, b: &str) -> String {
    let la: Vec<&str> = a.split('\n').collect();
    let lb: Vec<&str> = b.split('\n').collect();
    for i in 0..la.len().max(lb.len()) {
        let x = la.get(i).copied().unwrap_or("<end>");
        let y = lb.get(i).copied().unwrap_or("<end>");
        if x != y {
            return format!("line {}: {:?} vs {:?}", i + 1, x, y);
        }
    }
    "equal".into()
}

pub fn expand_leading_tabs(s: &str, tw: usize) -> String {
    let mut res = String::with_capacity(s.len());
    for (k, line) in s.split('\n').enumerate() {
        if k > 0 {
            res.push('\n');
        }
        let n = line.bytes().take_while(|b| *b == b'\t').count();
        for _ in 0..n * tw {
            res.push(' ');
        }
        res.push_str(&line[n..]);
    }
    res
}

/// Widths around the line lengths of the program's own output, plus a spread over 10..200.
pub fn c11_widths(out: &str, base: u32) -> Vec<u32> {
    let mut lens: Vec<u32> = out.split('\n').map(|l| l.trim_end_matches('\r').len() as u32).filter(|l| *l > 0).collect();
    lens.sort_unstable();
    lens.dedup();
    let mut w = vec![base, 10, 20, 40, 80, 120, 200];
    if let Some(m) = lens.last() {
        w.extend([m.saturating_sub(1), *m, m + 1]);
    }
    if lens.len() > 2 {
        let m = lens[lens.len() / 2];
        w.extend([m.saturating_sub(1), m, m + 1]);
    }
    // lines that end in a line comment: the widths at which the code in front of the comment just fits / just does not
    let mut extra = 0;
    for l in out.split('\n') {
        let l = l.trim_end_matches('\r');
        if let Some(p) = l.find("//") {
            let code = l[..p].trim_end().len() as u32;
            if code > 0 && extra < 4 {
                w.extend([l.len() as u32, l.len() as u32 + 1, l.len() as u32 + 2]);
                extra += 1;
            }
        }
    }
    w.retain(|x| *x >= 5);
    w.sort_unstable();
    w.dedup();
    w
}

pub fn norm_nl(s: &str) -> String {
    s.replace("\r\n", "\n")
}

/// the two outputs scan to the same tokens and differ only in gaps "" vs " " that follow a literal or unknown token
pub fn only_space_after_literal_differs(a: &str, b: &str) -> bool {
    let (Ok(ta), Ok(tb)) = (lex(a), lex(b)) else { return false };
    if ta.len() != tb.len() {
        return false;
    }
    let mut any = false;
    for i in 0..ta.len() {
        if ta[i].kind != tb[i].kind || ta[i].text(a) != tb[i].text(b) {
            return false;
        }
        let (wa, wb) = (ta[i].ws(a), tb[i].ws(b));
        if wa != wb {
            let lit = i > 0 && (ta[i - 1].kind.starts_with("TextLiteral") || ta[i - 1].kind.starts_with("NumberLiteral") || ta[i - 1].kind == "Unknown");
            if !(lit && matches!((wa, wb), ("", " ") | (" ", ""))) {
                return false;
            }
            any = true;
        }
    }
    any
}

/// A multi-line string was re-indented with the counters of the first wrap and the re-flow then gave its token other
/// counters (the interior is not re-indented a second time).
pub fn moved_string_site(run: &Run) -> &'static str {
    let Some(fin) = final_stage(&run.events) else { return "" };
    for a in step_args(&run.events, "reindent_string") {
        if a.len() >= 3 {
            let i = a[0] as usize;
            if let Some(f) = fin.fmt.get(i) {
                if f[2] as i64 != a[1] || f[3] as i64 != a[2] {
                    return " [site: the re-flow moved a multi-line string after its interior had been re-indented]";
                }
            }
        }
    }
    ""
}
