//! Running the real code and projecting what it did onto the abstract state of the specification.

use std::cell::RefCell;
use std::panic::{catch_unwind, AssertUnwindSafe};

use pasfmt::{make_formatter, FormattingConfig};
use pasfmt_core::prelude::*;
use pasfmt_core::verif as hooks;
use serde::{Deserialize, Serialize};
use serde_json::{json, Value};

/// A formatter configuration, in the vocabulary of the documented options.
#[derive(Debug, Clone, Serialize, Deserialize, PartialEq, Eq, Hash)]
pub struct Cfg {
    pub wrap_column: u32,
    pub begin_style: String,
    pub format_multiline_strings: bool,
    pub use_tabs: bool,
    pub tab_width: u8,
    pub continuation_indents: u8,
    pub line_ending: String,
}

impl Default for Cfg {
    fn default() -> Self {
        Cfg {
            wrap_column: 120,
            begin_style: "auto".into(),
            format_multiline_strings: true,
            use_tabs: false,
            tab_width: 2,
            continuation_indents: 2,
            line_ending: "lf".into(),
        }
    }
}

impl Cfg {
    pub fn formatter(&self) -> Formatter {
        let fc: FormattingConfig =
            serde_json::from_value(serde_json::to_value(self).unwrap()).expect("valid config");
        make_formatter(&fc)
    }
    pub fn nl(&self) -> &'static str {
        if self.line_ending == "crlf" {
            "\r\n"
        } else {
            "\n"
        }
    }
    pub fn cli_args(&self) -> Vec<String> {
        vec![
            format!("-Cwrap_column={}", self.wrap_column),
            format!("-Cbegin_style={}", self.begin_style),
            format!("-Cformat_multiline_strings={}", self.format_multiline_strings),
            format!("-Cuse_tabs={}", self.use_tabs),
            format!("-Ctab_width={}", self.tab_width),
            format!("-Ccontinuation_indents={}", self.continuation_indents),
            format!("-Cline_ending={}", self.line_ending),
        ]
    }
}

#[derive(Debug, Clone, Serialize, Deserialize, PartialEq, Eq)]
pub struct Tok {
    /// byte offset of the leading blanks
    pub start: usize,
    pub ws_len: usize,
    pub len: usize,
    pub kind: String,
}

impl Tok {
    pub fn text<'a>(&self, s: &'a str) -> &'a str {
        &s[self.start + self.ws_len..self.start + self.ws_len + self.len]
    }
    pub fn ws<'a>(&self, s: &'a str) -> &'a str {
        &s[self.start..self.start + self.ws_len]
    }
    pub fn content_start(&self) -> usize {
        self.start + self.ws_len
    }
    pub fn end(&self) -> usize {
        self.start + self.ws_len + self.len
    }
    pub fn is_comment(&self) -> bool {
        self.kind.starts_with("Comment(")
    }
    pub fn is_directive(&self) -> bool {
        self.kind == "CompilerDirective" || self.kind.starts_with("ConditionalDirective(")
    }
}

thread_local! {
    static LAST_PANIC: RefCell<Option<String>> = const { RefCell::new(None) };
}

/// A logger that formats and discards every record at the command line's default level (warn): the code that builds
/// the diagnostics runs in every real invocation, so it must run under the monitors too.
struct SinkLogger;
impl log::Log for SinkLogger {
    fn enabled(&self, m: &log::Metadata) -> bool {
        m.level() <= log::Level::Warn
    }
    fn log(&self, r: &log::Record) {
        if self.enabled(r.metadata()) {
            let _ = std::hint::black_box(format!("{}", r.args()));
        }
    }
    fn flush(&self) {}
}
static SINK_LOGGER: SinkLogger = SinkLogger;

pub fn install_panic_hook() {
    if log::set_logger(&SINK_LOGGER).is_ok() {
        log::set_max_level(log::LevelFilter::Warn);
    }
    std::panic::set_hook(Box::new(|info| {
        let loc = info
            .location()
            .map(|l| format!("{}:{}", l.file(), l.line()))
            .unwrap_or_default();
        let msg = if let Some(s) = info.payload().downcast_ref::<&str>() {
            s.to_string()
        } else if let Some(s) = info.payload().downcast_ref::<String>() {
            s.clone()
        } else {
            "?".into()
        };
        LAST_PANIC.with(|p| *p.borrow_mut() = Some(format!("{loc}: {msg}")));
    }));
}

pub fn guarded<T>(f: impl FnOnce() -> T) -> Result<T, String> {
    LAST_PANIC.with(|p| *p.borrow_mut() = None);
    catch_unwind(AssertUnwindSafe(f)).map_err(|_| {
        LAST_PANIC
            .with(|p| p.borrow_mut().take())
            .unwrap_or_else(|| "panic".into())
    })
}

pub fn lex(text: &str) -> Result<Vec<Tok>, String> {
    guarded(|| {
        let toks = DelphiLexer {}.lex(text);
        let mut pos = 0;
        toks.iter()
            .map(|t| {
                let ws_len = t.get_leading_whitespace().len();
                let len = t.get_content().len();
                let tok = Tok {
                    start: pos,
                    ws_len,
                    len,
                    kind: format!("{:?}", t.get_token_type()),
                };
                pos += ws_len + len;
                tok
            })
            .collect()
    })
}

#[derive(Debug, Clone, Serialize, Deserialize, PartialEq, Eq)]
pub struct Line {
    pub parent: Option<(usize, usize)>,
    pub level: u16,
    pub tokens: Vec<usize>,
    pub typ: String,
}

/// Result of the public lexer + parser: consolidated token kinds and logical lines.
pub fn parse(text: &str) -> Result<(Vec<String>, Vec<Line>), String> {
    guarded(|| {
        let toks = DelphiLexer {}.lex(text);
        let (lines, toks) = DelphiLogicalLineParser {}.parse(toks);
        (
            toks.iter()
                .map(|t| format!("{:?}", t.get_token_type()))
                .collect(),
            lines
                .iter()
                .map(|l| Line {
                    parent: l.get_parent().map(|p| (p.line_index, p.global_token_index)),
                    level: l.get_level(),
                    tokens: l.get_tokens().clone(),
                    typ: format!("{:?}", l.get_line_type()),
                })
                .collect(),
        )
    })
}

/// One call of the formatter, with everything that was observed.
#[derive(Debug, Clone)]
pub struct Run {
    pub text: String,
    pub cfg: Cfg,
    pub cursors_in: Vec<u32>,
    pub out: Result<String, String>,
    pub cursors_out: Vec<u32>,
    pub events: Vec<hooks::Event>,
}

pub fn format_with(f: &Formatter, text: &str, cursors: &[u32], record: bool) -> (Result<String, String>, Vec<u32>, Vec<hooks::Event>) {
    let mut cs: Vec<Cursor> = cursors.iter().map(|c| Cursor(*c)).collect();
    if record {
        hooks::start();
    }
    let out = guarded(|| {
        if cs.is_empty() {
            f.format(text, FileOptions::new())
        } else {
            f.format(text, FileOptions::new().with_cursors(&mut cs))
        }
    });
    let events = if record { hooks::take() } else { vec![] };
    (out, cs.iter().map(|c| c.0).collect(), events)
}

pub fn run(text: &str, cfg: &Cfg, cursors: &[u32], record: bool) -> Run {
    let f = cfg.formatter();
    let (out, cursors_out, events) = format_with(&f, text, cursors, record);
    Run {
        text: text.to_owned(),
        cfg: cfg.clone(),
        cursors_in: cursors.to_vec(),
        out,
        cursors_out,
        events,
    }
}

pub fn fmt(f: &Formatter, text: &str) -> Result<String, String> {
    guarded(|| f.format(text, FileOptions::new()))
}

pub fn cps(s: &str) -> Vec<u32> {
    s.chars().map(|c| c as u32).collect()
}

/// byte offset -> code point offset (offsets not on a boundary map to -1)
pub fn cp_offset(s: &str, byte: usize) -> i64 {
    if byte > s.len() || !s.is_char_boundary(byte) {
        return -1;
    }
    s[..byte].chars().count() as i64
}

pub fn toks_json(s: &str, toks: &[Tok]) -> Value {
    // code-point based [ws_len, len, kind]
    Value::Array(
        toks.iter()
            .map(|t| {
                json!([
                    t.ws(s).chars().count(),
                    t.text(s).chars().count(),
                    t.kind
                ])
            })
            .collect(),
    )
}

pub fn stage_json(st: &hooks::StageSnapshot, with_text: bool) -> Value {
    let mut v = json!({
        "stage": st.stage,
        "kinds": st.kinds,
        "fmt": st.fmt,
        "ignored": st.ignored.iter().map(|i| i + 1).collect::<Vec<_>>(),
        "lines": st.lines.iter().map(|l| json!({
            "parent": match l.parent { Some((a, b)) => json!([a + 1, b + 1]), None => json!([]) },
            "level": l.level,
            "tokens": l.tokens.iter().map(|i| i + 1).collect::<Vec<_>>(),
            "typ": l.line_type,
        })).collect::<Vec<_>>(),
    });
    if with_text {
        v["ws"] = Value::Array(st.ws.iter().map(|s| json!(cps(s))).collect());
        v["texts"] = Value::Array(st.texts.iter().map(|s| json!(cps(s))).collect());
    }
    v
}
