//! Spec -> implementation: behaviours printed by TLC are stepped through the real code and the abstract state is
//! compared after each action.

use crate::obs::*;
use serde_json::{json, Value};
use std::io::{BufRead, Write};

pub fn text_of(v: &Value) -> String {
    v.as_array().map(|a| a.iter().map(|c| char::from_u32(c.as_u64().unwrap() as u32).unwrap_or('\u{FFFD}')).collect()).unwrap_or_default()
}

/// Lexer behaviours: {"in": [code points], "toks": [[ws, len, kind], ...]}
pub fn replay_lex(path: &str, out: &mut impl Write) -> (u64, u64) {
    let f = std::io::BufReader::new(std::fs::File::open(path).expect("behaviours file"));
    let (mut n, mut bad) = (0u64, 0u64);
    for line in f.lines() {
        let line = line.unwrap();
        if line.trim().is_empty() {
            continue;
        }
        let v: Value = serde_json::from_str(&line).expect("behaviour json");
        let text = text_of(&v["in"]);
        n += 1;
        let got = match lex(&text) {
            Ok(t) => toks_json(&text, &t),
            Err(p) => json!({"panic": p}),
        };
        if got != v["toks"] {
            bad += 1;
            let _ = writeln!(out, "{}", json!({"t": "mismatch", "kind": "lex", "text": text, "in": v["in"], "spec": v["toks"], "impl": got}));
        }
    }
    (n, bad)
}
