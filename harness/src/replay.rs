//! Spec -> implementation: behaviours printed by TLC are stepped through the real code and the abstract state is
//! compared after each action.

use crate::obs::*;
use serde_json::{json, Value};
use std::io::{BufRead, Write};

pub fn text_of(v: &Value) -> String {
    v.as_array().map(|a| a.iter().map(|c| char::from_u32(c.as_u64().unwrap() as u32).unwrap_or('\u{FFFD}')).collect()).unwrap_or_default()
}

/// Lexer behaviours: {"in": [code points], "toks": [[ws, len, kind], ...]}
pub fn replay_lex(path: &str, out: &mut impl Write) -> (u64, u64) {
    let f = std::io::BufReader::new(std::fs::File::open(path).expect("behaviours file"));
    let (mut n, mut bad) = (0u64, 0u64);
    for line in f.lines() {
        let line = line.unwrap();
        if line.trim().is_empty() {
            continue;
        }
        let v: Value = serde_json::from_str(&line).expect("behaviour json");
        let text = text_of(&v["in"]);
        n += 1;
        let got = match lex(&text) {
            Ok(t) => toks_json(&text, &t),
            Err(p) => json!({"panic": p}),
        };
        if got != v["toks"] {
            bad += 1;
            let _ = writeln!(out, "{}", json!({"t": "mismatch", "kind": "lex", "text": text, "in": v["in"], "spec": v["toks"], "impl": got}));
        }
    }
    (n, bad)
}

/// Directive-tree behaviours: {"toks": ["p"|"if"|"el"|"en" ...] (the last "p" is the end-of-file token), "passes": [[pos...]...]}
pub fn replay_passes(path: &str, out: &mut impl Write) -> (u64, u64) {
    use pasfmt_core::verif as hooks;
    let f = std::io::BufReader::new(std::fs::File::open(path).expect("behaviours file"));
    let (mut n, mut bad) = (0u64, 0u64);
    for line in f.lines() {
        let line = line.unwrap();
        if line.trim().is_empty() {
            continue;
        }
        let v: Value = serde_json::from_str(&line).expect("behaviour json");
        let toks: Vec<&str> = v["toks"].as_array().unwrap().iter().map(|x| x.as_str().unwrap()).collect();
        let mut text = String::new();
        for (i, t) in toks[..toks.len() - 1].iter().enumerate() {
            if i > 0 {
                text.push(if i % 3 == 0 { '\n' } else { ' ' });
            }
            text.push_str(match (*t, (i + toks.len()) % 3) {
                ("p", 0) => "x",
                ("p", 1) => ";",
                ("p", _) => "begin",
                ("if", 0) => "{$ifdef A}",
                ("if", 1) => "{$if Defined(B)}",
                ("if", _) => "(*$IFNDEF C*)",
                ("el", 0) => "{$else}",
                ("el", 1) => "{$elseif D}",
                ("el", _) => "{$ELSE}",
                ("en", 0) => "{$endif}",
                ("en", 1) => "{$ifend}",
                (_, _) => "(*$endif*)",
            });
        }
        n += 1;
        hooks::start();
        let r = parse(&text);
        let events = hooks::take();
        let passes: Vec<Vec<i64>> = events
            .iter()
            .filter_map(|e| match e {
                hooks::Event::Step("pass", a, _) => Some(a.iter().map(|i| i + 1).collect()),
                _ => None,
            })
            .collect();
        let got = match r {
            Ok(_) => json!(passes),
            Err(p) => json!({"panic": p}),
        };
        if got != v["passes"] {
            bad += 1;
            let _ = writeln!(out, "{}", json!({"t": "mismatch", "kind": "passes", "text": text, "toks": v["toks"], "spec": v["passes"], "impl": got}));
        }
    }
    (n, bad)
}
