//! Spec -> implementation: behaviours printed by TLC are stepped through the real code and the abstract state is
//! compared after each action.

use crate::obs::*;
use serde_json::{json, Value};
use std::io::{BufRead, Write};

pub fn text_of(v: &Value) -> String {
    v.as_array().map(|a| a.iter().map(|c| char::from_u32(c.as_u64().unwrap() as u32).unwrap_or('\u{FFFD}')).collect()).unwrap_or_default()
}

/// Lexer behaviours: {"in": [code points], "toks": [[ws, len, kind], ...]}
pub fn replay_lex(path: &str, out: &mut impl Write) -> (u64, u64) {
    let f = std::io::BufReader::new(std::fs::File::open(path).expect("behaviours file"));
    let (mut n, mut bad) = (0u64, 0u64);
    for line in f.lines() {
        let line = line.unwrap();
        if line.trim().is_empty() {
            continue;
        }
        let v: Value = serde_json::from_str(&line).expect("behaviour json");
        let text = text_of(&v["in"]);
        n += 1;
        let got = match lex(&text) {
            Ok(t) => toks_json(&text, &t),
            Err(p) => json!({"panic": p}),
        };
        if got != v["toks"] {
            bad += 1;
            let _ = writeln!(out, "{}", json!({"t": "mismatch", "kind": "lex", "text": text, "in": v["in"], "spec": v["toks"], "impl": got}));
        }
    }
    (n, bad)
}

/// Directive-tree behaviours: {"toks": ["p"|"if"|"el"|"en" ...] (the last "p" is the end-of-file token), "passes": [[pos...]...]}
pub fn replay_passes(path: &str, out: &mut impl Write) -> (u64, u64) {
    use pasfmt_core::verif as hooks;
    let f = std::io::BufReader::new(std::fs::File::open(path).expect("behaviours file"));
    let (mut n, mut bad) = (0u64, 0u64);
    for line in f.lines() {
        let line = line.unwrap();
        if line.trim().is_empty() {
            continue;
        }
        let v: Value = serde_json::from_str(&line).expect("behaviour json");
        let toks: Vec<&str> = v["toks"].as_array().unwrap().iter().map(|x| x.as_str().unwrap()).collect();
        let mut text = String::new();
        for (i, t) in toks[..toks.len() - 1].iter().enumerate() {
            if i > 0 {
                text.push(if i % 3 == 0 { '\n' } else { ' ' });
            }
            text.push_str(match (*t, (i + toks.len()) % 3) {
                ("p", 0) => "x",
                ("p", 1) => ";",
                ("p", _) => "begin",
                ("if", 0) => "{$ifdef A}",
                ("if", 1) => "{$if Defined(B)}",
                ("if", _) => "(*$IFNDEF C*)",
                ("el", 0) => "{$else}",
                ("el", 1) => "{$elseif D}",
                ("el", _) => "{$ELSE}",
                ("en", 0) => "{$endif}",
                ("en", 1) => "{$ifend}",
                (_, _) => "(*$endif*)",
            });
        }
        n += 1;
        hooks::start();
        let r = parse(&text);
        let events = hooks::take();
        let passes: Vec<Vec<i64>> = events
            .iter()
            .filter_map(|e| match e {
                hooks::Event::Step("pass", a, _) => Some(a.iter().map(|i| i + 1).collect()),
                _ => None,
            })
            .collect();
        let got = match r {
            Ok(_) => json!(passes),
            Err(p) => json!({"panic": p}),
        };
        if got != v["passes"] {
            bad += 1;
            let _ = writeln!(out, "{}", json!({"t": "mismatch", "kind": "passes", "text": text, "toks": v["toks"], "spec": v["passes"], "impl": got}));
        }
    }
    (n, bad)
}

/// Multi-line literal behaviours of MC_MLString: {"text": literal, "qualifies", "impl", "lf4", "crlf4"}.
/// The literal is embedded at top level (`x := <literal>;`, where the continuation indentation is four spaces) and in
/// deeper places; exact agreement with the model is a fidelity matter, the C12 / C01 monitors decide violations.
pub fn replay_mlstring(path: &str, out: &mut impl Write) -> (u64, u64) {
    use crate::mon::*;
    let f = std::io::BufReader::new(std::fs::File::open(path).expect("behaviours file"));
    let (mut n, mut bad) = (0u64, 0u64);
    let mk = |fms: bool, crlf: bool, tabs: bool| Cfg { format_multiline_strings: fms, line_ending: if crlf { "crlf".into() } else { "lf".into() }, use_tabs: tabs, ..Cfg::default() };
    let cfgs = [mk(true, false, false), mk(true, true, false), mk(false, false, false), mk(true, false, true)];
    let fmts: Vec<_> = cfgs.iter().map(|c| c.formatter()).collect();
    for line in f.lines() {
        let line = line.unwrap();
        if line.trim().is_empty() {
            continue;
        }
        let v: Value = serde_json::from_str(&line).expect("behaviour json");
        let lit = text_of(&v["text"]);
        n += 1;
        let placements = [format!("x := {lit};\n"), format!("begin\n  Foo({lit}, 1);\nend;\n"), format!("x := procedure begin if a then y := {lit} + z; end;\n")];
        for (pi, text) in placements.iter().enumerate() {
            let Ok(tin) = lex(text) else { continue };
            if tin.iter().filter(|t| t.kind == "TextLiteral(MultiLine)").count() != 1 {
                // the specification's scanner sees exactly one multi-line literal here (MC_MLString: OneLiteral)
                if pi == 0 {
                    bad += 1;
                    let _ = writeln!(out, "{}", json!({"t": "viol", "prop": "C12", "clause": "literal_not_scanned", "detail": format!("the literal {:?} is not scanned as one multi-line literal; its text is then formatted as code", lit), "text": text, "literal": v["text"]}));
                }
                continue;
            }
            for (ci, cfg) in cfgs.iter().enumerate() {
                let res = fmt(&fmts[ci], text);
                let o = match res {
                    Ok(o) => o,
                    Err(p) => {
                        bad += 1;
                        let _ = writeln!(out, "{}", json!({"t": "viol", "prop": "C04", "clause": "panic", "detail": p, "text": text}));
                        continue;
                    }
                };
                let Ok(tout) = lex(&o) else { continue };
                let mut viols: Vec<Viol> = vec![];
                if let Some(x) = c01(text, &tin, &o) {
                    viols.push(x);
                }
                let (vs, _) = c12(text, &tin, &o, &tout, cfg, &[false]);
                viols.extend(vs);
                if let Some(x) = c02(text, &tin, &o, &tout, cfg.format_multiline_strings) {
                    viols.push(x);
                }
                // C03: formatting the result again changes nothing
                if let Ok(o2) = fmt(&fmts[ci], &o) {
                    if o2 != o {
                        viols.push(Viol { prop: "C03", clause: "idempotent", detail: format!("{:?} -> {:?} -> {:?}", text, o, o2) });
                    }
                }
                for x in &viols {
                    bad += 1;
                    let _ = writeln!(out, "{}", json!({"t": "viol", "prop": x.prop, "clause": x.clause, "detail": x.detail, "text": text, "cfg": cfg, "literal": v["text"]}));
                }
                // fidelity: the exact text the model predicts (top-level placement, space indentation)
                if pi == 0 && ci < 3 && viols.is_empty() {
                    let want = match ci { 0 => text_of(&v["lf4"]), 1 => text_of(&v["crlf4"]), _ => lit.clone() };
                    let got = tout.iter().find(|t| t.kind == "TextLiteral(MultiLine)").map(|t| t.text(&o).to_string());
                    if got.as_deref() != Some(want.as_str()) {
                        let _ = writeln!(out, "{}", json!({"t": "drift", "module": "MLString", "text": text, "cfg": cfg, "spec": want, "impl": got}));
                    }
                }
            }
        }
    }
    (n, bad)
}

/// Comment / directive behaviours of MC_Comment: {"text": token, "norm": normalised token}. The token stands alone in
/// the file; the property-level monitors (C01, C02) decide violations, exact disagreement with the model is fidelity.
pub fn replay_comment(path: &str, out: &mut impl Write) -> (u64, u64) {
    use crate::mon::*;
    let f = std::io::BufReader::new(std::fs::File::open(path).expect("behaviours file"));
    let (mut n, mut bad) = (0u64, 0u64);
    let cfg = Cfg::default();
    let fmtr = cfg.formatter();
    for line in f.lines() {
        let line = line.unwrap();
        if line.trim().is_empty() {
            continue;
        }
        let v: Value = serde_json::from_str(&line).expect("behaviour json");
        let tok = text_of(&v["text"]);
        let norm = text_of(&v["norm"]);
        n += 1;
        for text in [format!("{tok}\n"), format!("x := 1; {tok}\ny;\n")] {
            let Ok(tin) = lex(&text) else { continue };
            let o = match fmt(&fmtr, &text) {
                Ok(o) => o,
                Err(p) => {
                    bad += 1;
                    let _ = writeln!(out, "{}", json!({"t": "viol", "prop": "C04", "clause": "panic", "detail": p, "text": text}));
                    continue;
                }
            };
            let Ok(tout) = lex(&o) else { continue };
            let mut viols: Vec<Viol> = vec![];
            if let Some(x) = c01(&text, &tin, &o) {
                viols.push(x);
            }
            if let Some(x) = c02(&text, &tin, &o, &tout, true) {
                viols.push(x);
            }
            // formatting again changes nothing
            if let Ok(o2) = fmt(&fmtr, &o) {
                if o2 != o {
                    viols.push(Viol { prop: "C03", clause: "idempotent", detail: format!("{:?} -> {:?} -> {:?}", text, o, o2) });
                }
            }
            for x in &viols {
                bad += 1;
                let _ = writeln!(out, "{}", json!({"t": "viol", "prop": x.prop, "clause": x.clause, "detail": x.detail, "text": text}));
            }
            if viols.is_empty() {
                // the token as the scanner sees it in the input must be the model's token, and its normal form the model's
                let idx = tin.iter().position(|t| t.text(&text) == tok);
                if let Some(i) = idx {
                    if tin.len() == tout.len() && tout[i].text(&o) != norm {
                        let _ = writeln!(out, "{}", json!({"t": "drift", "module": "Comment", "text": text, "spec": norm, "impl": tout[i].text(&o)}));
                    }
                }
            }
        }
    }
    (n, bad)
}

/// Reconstructor behaviours of MC_Recon: {"cfg": {crlf, tabs, tw, ci}, "toks": [{kind, text, ws, ign, nl, ind, cont, sp}], "out": [...]}.
/// The real reconstructor is run on the same final token table (built through the public API); its output must be the
/// model's (C09 / C10: the rendering arithmetic and the line ending are pinned down by the properties).
pub fn replay_recon(path: &str, out: &mut impl Write) -> (u64, u64) {
    use pasfmt::FormattingConfig;
    use pasfmt_core::prelude::*;
    let f = std::io::BufReader::new(std::fs::File::open(path).expect("behaviours file"));
    let (mut n, mut bad) = (0u64, 0u64);
    for line in f.lines() {
        let line = line.unwrap();
        if line.trim().is_empty() {
            continue;
        }
        let v: Value = serde_json::from_str(&line).expect("behaviour json");
        n += 1;
        let c = &v["cfg"];
        let cfg = Cfg {
            line_ending: if c["crlf"].as_bool().unwrap() { "crlf".into() } else { "lf".into() },
            use_tabs: c["tabs"].as_bool().unwrap(),
            tab_width: c["tw"].as_u64().unwrap() as u8,
            continuation_indents: c["ci"].as_u64().unwrap() as u8,
            ..Cfg::default()
        };
        let fc: FormattingConfig = serde_json::from_value(serde_json::to_value(&cfg).unwrap()).unwrap();
        let rs: ReconstructionSettings = (&fc).into();
        let recon = DelphiLogicalLinesReconstructor::new(rs);
        let specs: Vec<&Value> = v["toks"].as_array().unwrap().iter().collect();
        let contents: Vec<(String, usize)> = specs.iter().map(|t| { let ws = text_of(&t["ws"]); let tx = text_of(&t["text"]); (format!("{ws}{tx}"), ws.len()) }).collect();
        let got = guarded(|| {
            let mut tokens: Vec<Token> = specs
                .iter()
                .zip(&contents)
                .map(|(t, (content, ws_len))| {
                    let tt = match t["kind"].as_str().unwrap() {
                        "word" => TokenType::Identifier,
                        "linecomment" => TokenType::Comment(CommentKind::InlineLine),
                        "block" => TokenType::Comment(CommentKind::InlineBlock),
                        _ => TokenType::Eof,
                    };
                    Token::new_ref(content, *ws_len as u32, tt)
                })
                .collect();
            let mut marker = TokenMarker::default();
            for (i, t) in specs.iter().enumerate() {
                if t["ign"].as_bool().unwrap() {
                    marker.mark(i);
                }
            }
            let mut ft = FormattedTokens::new_from_tokens(&mut tokens, &marker);
            for (i, t) in specs.iter().enumerate() {
                let d = ft.get_formatting_data_mut(i).unwrap();
                d.newlines_before = t["nl"].as_u64().unwrap() as u16;
                d.indentations_before = t["ind"].as_u64().unwrap() as u16;
                d.continuations_before = t["cont"].as_u64().unwrap() as u16;
                d.spaces_before = t["sp"].as_u64().unwrap() as u16;
            }
            let mut buf = String::new();
            recon.reconstruct(ft, &mut buf);
            buf
        });
        let want = text_of(&v["out"]);
        match got {
            Ok(g) if g == want => {}
            Ok(g) => {
                bad += 1;
                let _ = writeln!(out, "{}", json!({"t": "mismatch", "kind": "recon", "cfg": v["cfg"], "toks": v["toks"], "spec": want, "impl": g}));
            }
            Err(p) => {
                bad += 1;
                let _ = writeln!(out, "{}", json!({"t": "mismatch", "kind": "recon", "cfg": v["cfg"], "toks": v["toks"], "spec": want, "impl": {"panic": p}}));
            }
        }
    }
    (n, bad)
}
