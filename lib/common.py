"""Shared machinery of the checks: building, running TLC, running the harness pool, evidence, known findings."""
import json, os, re, subprocess, sys, time, hashlib, shutil

VERIF = os.path.dirname(os.path.dirname(os.path.abspath(__file__)))
REPO = os.environ.get("VERIF_REPO", "/repo")
SPEC = os.path.join(VERIF, "spec")
WORK = os.path.join(VERIF, "work")
OUT = os.path.join(VERIF, "out")
EVID = os.path.join(VERIF, "evidence")
VH = os.path.join(VERIF, "target", "release", "vh")
VH_CHECKED = os.path.join(VERIF, "target", "checked", "vh")
PASFMT = os.path.join(VERIF, "target", "cli", "release", "pasfmt")
SEED = int(os.environ.get("VERIF_SEED", "1"))
NPROC = int(os.environ.get("VERIF_PROCS", "16"))


class ToolError(Exception):
    pass


def log(*a):
    print(*a, file=sys.stderr, flush=True)


def run(cmd, timeout=None, cwd=None, env=None, check=True, capture=True):
    e = dict(os.environ)
    e.update({"CARGO_NET_OFFLINE": "true"})
    if env:
        e.update(env)
    try:
        r = subprocess.run(cmd, cwd=cwd, env=e, timeout=timeout, stdout=subprocess.PIPE if capture else None,
                           stderr=subprocess.STDOUT if capture else None, text=True, errors="replace")
    except subprocess.TimeoutExpired as ex:
        raise ToolError(f"timeout after {timeout}s: {' '.join(cmd[:6])}")
    if check and r.returncode != 0:
        raise ToolError(f"command failed ({r.returncode}): {' '.join(cmd[:8])}\n{(r.stdout or '')[-3000:]}")
    return r


_built = {}


def build(which=("release",)):
    """(Re)build the harness (and, if asked, the CLI) from /repo's current working tree, hooks enabled."""
    os.makedirs(WORK, exist_ok=True)
    os.makedirs(OUT, exist_ok=True)
    t = time.time()
    h = os.path.join(VERIF, "harness")
    if "release" in which and "release" not in _built:
        run(["cargo", "build", "--release", "--offline"], cwd=h, timeout=1800)
        _built["release"] = 1
    if "checked" in which and "checked" not in _built:
        run(["cargo", "build", "--profile", "checked", "--offline"], cwd=h, timeout=1800)
        _built["checked"] = 1
    if "cli" in which and "cli" not in _built:
        run(["cargo", "build", "--release", "--offline", "-p", "pasfmt", "--features", "verif_hooks",
             "--target-dir", os.path.join(VERIF, "target", "cli")], cwd=REPO, timeout=1800)
        _built["cli"] = 1
    log(f"[build] {which} {time.time()-t:.1f}s")


# ------------------------------------------------------------------------------------------------ TLC

TLC_JAR = "/opt/veriftools/tla/tla2tools.jar"
CM_JAR = "/opt/veriftools/tla/CommunityModules-deps.jar"


def tlc(module, cfg, workers=8, timeout=900, simulate=None, depth=None, env=None, jvm=None, extra=None, name=None, deadlock=False, coverage=True):
    """Run TLC on spec/<module>.tla with spec/<cfg>; returns dict(stdout, states, distinct, replay[], prints[], ok, violation)."""
    name = name or (module + "_" + os.path.basename(cfg).replace(".cfg", ""))
    meta = os.path.join(WORK, "tlc", name + "_" + str(os.getpid()))
    shutil.rmtree(meta, ignore_errors=True)
    os.makedirs(meta, exist_ok=True)
    cmd = ["java", "-XX:+UseParallelGC", "-Dfile.encoding=UTF-8", "-Dstdout.encoding=UTF-8"] + (jvm or ["-Xmx8g", "-Xss1g"]) + ["-cp", f"{TLC_JAR}:{CM_JAR}", "tlc2.TLC",
           "-workers", str(workers), "-metadir", meta, "-cleanup", "-noGenerateSpecTE",
           "-seed", str(SEED), "-config", cfg]
    if coverage:
        cmd += ["-coverage", "1"]
    if simulate:
        cmd += ["-simulate", f"num={simulate}"]
    if depth:
        cmd += ["-depth", str(depth)]
    if deadlock:
        cmd += ["-deadlock"]
    if extra:
        cmd += extra
    cmd += [module + ".tla"]
    t = time.time()
    r = None
    for attempt in (1, 2):
        r = _run_watched(cmd, SPEC, timeout, env)
        if r is not None:
            break
        log(f"[tlc] {name}: TLC stopped using the processor without finishing (a deadlock inside its disk queue was seen once) - started again")
        shutil.rmtree(meta, ignore_errors=True)
        os.makedirs(meta, exist_ok=True)
    if r is None:
        raise ToolError(f"TLC stalled twice: {name}")
    shutil.rmtree(meta, ignore_errors=True)
    out = r.stdout or ""
    res = {"stdout": out, "wall_s": time.time() - t, "rc": r.returncode, "replay": [], "prints": []}
    m = re.search(r"(\d+) states generated, (\d+) distinct states found", out)
    res["states"] = int(m.group(2)) if m else 0
    res["transitions"] = int(m.group(1)) if m else 0
    if simulate and not m:
        m2 = re.search(r"The number of states generated: (\d+)", out)
        if m2:
            res["states"] = res["transitions"] = int(m2.group(1))
    for line in out.splitlines():
        if line.startswith('<<"'):
            mm = re.match(r'^<<"([A-Z_]+)", (.*)>>$', line)
            if mm:
                try:
                    payload = json.loads(json.loads(mm.group(2))) if mm.group(2).startswith('"') else mm.group(2)
                except Exception:
                    payload = mm.group(2)
                (res["replay"] if mm.group(1) == "REPLAY" else res["prints"]).append((mm.group(1), payload))
    res["violation"] = ("is violated" in out) or ("Error: Invariant" in out) or ("Temporal properties were violated" in out)
    res["ok"] = (r.returncode == 0) and ("Model checking completed. No error has been found." in out or (simulate and "Error" not in out))
    # per-action coverage: "<Action line .. of module M>: distinct:generated"
    cov = {}
    for mm in re.finditer(r"^<(\w+) line \d+, col \d+ to line \d+, col \d+ of module (\w+)>: (\d+):(\d+)", out, re.M):
        cov[mm.group(1)] = cov.get(mm.group(1), 0) + int(mm.group(4))
    res["coverage"] = cov
    return res


def _run_watched(cmd, cwd, timeout, env):
    """run() for TLC with a stall watchdog: a JVM that lives but has used no processor time for three minutes is killed
    (returns None); a timeout is a ToolError as everywhere else."""
    import threading, types
    e = dict(os.environ)
    e.update({"CARGO_NET_OFFLINE": "true"})
    if env:
        e.update(env)
    p = subprocess.Popen(cmd, cwd=cwd, env=e, stdout=subprocess.PIPE, stderr=subprocess.STDOUT, text=True, errors="replace")
    chunks = []
    th = threading.Thread(target=lambda: chunks.append(p.stdout.read()), daemon=True)
    th.start()
    def cpu():
        try:
            f = open(f"/proc/{p.pid}/stat").read().rsplit(")", 1)[1].split()
            return int(f[11]) + int(f[12])
        except Exception:
            return -1
    t0, last, last_t = time.time(), cpu(), time.time()
    while p.poll() is None:
        time.sleep(2)
        now = cpu()
        if now != last:
            last, last_t = now, time.time()
        elif time.time() - last_t > 180:
            p.kill(); p.wait(); th.join(10)
            return None
        if timeout and time.time() - t0 > timeout:
            p.kill(); p.wait()
            raise ToolError(f"timeout after {timeout}s: {' '.join(cmd[:6])}")
    th.join(30)
    return types.SimpleNamespace(returncode=p.returncode, stdout="".join(x or "" for x in chunks))


def tlc_error_text(res, n=40):
    lines = [l for l in res["stdout"].splitlines() if not l.startswith('<<"REPLAY"')]
    return "\n".join(lines[-n:])


# ------------------------------------------------------------------------------------------------ harness pool

def write_ndjson(path, rows):
    with open(path, "w") as f:
        for r in rows:
            f.write(json.dumps(r) + "\n")


def read_ndjson(path):
    with open(path) as f:
        return [json.loads(l) for l in f if l.strip()]


def pool(tasks, name, procs=None, timeout_ms=2000, vh=None, stream=False):
    """Run tasks through worker processes; returns list of result rows."""
    tf = os.path.join(WORK, f"{name}.tasks.ndjson")
    rf = os.path.join(WORK, f"{name}.results.ndjson")
    for i, t in enumerate(tasks):
        t.setdefault("id", i)
    write_ndjson(tf, tasks)
    r = run([vh or VH, "pool", tf, rf, str(procs or NPROC), str(timeout_ms)], timeout=6 * 3600, check=False)
    if r.returncode != 0:
        raise ToolError(f"harness pool failed: {r.stdout[-2000:]}")
    if stream:
        def it():
            with open(rf) as f:
                for l in f:
                    if l.strip():
                        yield json.loads(l)
        return it()
    rows = read_ndjson(rf)
    return rows


def split_tasks(suite, params, n, props, cfgs, chunks=64, **kw):
    tasks = []
    step = max(1, (n + chunks - 1) // chunks)
    i = 0
    while i < n:
        t = {"suite": suite, "params": params, "start": i, "end": min(n, i + step), "props": props, "cfgs": cfgs}
        t.update(kw)
        tasks.append(t)
        i += step
    return tasks


def suite_len(suite, params):
    r = run([VH, "suite-len", suite, json.dumps(params)], timeout=600)
    return int(r.stdout.strip().splitlines()[-1])


# ------------------------------------------------------------------------------------------------ findings, evidence

def load_known():
    p = os.path.join(VERIF, "known_findings.json")
    if not os.path.exists(p):
        return {"known": [], "fixed": []}
    return json.load(open(p))


def match_known(prop, viol, known):
    """viol: dict(prop, clause, detail, case{text,label,cfg}); returns the matching known finding or None."""
    for k in known.get("known", []):
        if k["property"] != prop:
            continue
        m = k.get("match", {})
        ok = True
        if "clause" in m and viol.get("clause") not in ([m["clause"]] if isinstance(m["clause"], str) else m["clause"]):
            ok = False
        if ok and "detail_regex" in m and not re.search(m["detail_regex"], viol.get("detail", ""), re.S):
            ok = False
        if ok and "text_regex" in m and not re.search(m["text_regex"], (viol.get("case") or {}).get("text", ""), re.S):
            ok = False
        if ok and "culprits_in" in m:
            # every comment named as the cause of an unsolved line must be one of the listed placements
            cs = re.findall(r"\[unsolved-culprit: ([^\]]*)\]", viol.get("detail", ""))
            if not cs or any(x not in m["culprits_in"] for x in cs):
                ok = False
        if ok and "culprit_regex" in m:
            cs = re.findall(r"\[unsolved-culprit: ([^\]]*)\]", viol.get("detail", ""))
            if not cs or any(not re.match(m["culprit_regex"], x) for x in cs):
                ok = False
        if ok and "text_sha256" in m and hashlib.sha256(((viol.get("case") or {}).get("text") or "").encode()).hexdigest() not in m["text_sha256"]:
            ok = False
        if ok and "label_regex" in m and not re.search(m["label_regex"], (viol.get("case") or {}).get("label", "")):
            ok = False
        if ok and "site_regex" in m and not re.search(m["site_regex"], viol.get("site", viol.get("detail", ""))):
            ok = False
        if ok:
            return k
    return None


def write_replay(prop, viol, idx=0):
    os.makedirs(OUT, exist_ok=True)
    p = os.path.join(OUT, f"{prop}.replay.{idx}.json")
    with open(p, "w") as f:
        json.dump(viol, f, indent=1)
    return p


def write_evidence(prop, tier, level, coverage, wall_s, violations, assumptions=None):
    os.makedirs(EVID, exist_ok=True)
    ev = {"property_id": prop, "tier": tier, "seed": SEED, "level": level, "coverage": coverage,
          "assumptions": assumptions or [], "wall_s": round(wall_s, 2), "violations": violations}
    with open(os.path.join(EVID, f"{prop}.json"), "w") as f:
        json.dump(ev, f, indent=1)
    return ev
