"""Per-property plans: which models are checked, which behaviours are replayed, which suites are explored."""
import json, os, sys, time
from common import *
from engine import Check

Q = lambda tier, q, t: q if tier == "quick" else t

_alpha = None


def alphabets():
    """The soup alphabets, as declared in spec/Soup.tla (TLC prints them)."""
    global _alpha
    if _alpha is None:
        r = tlc("Soup", "Soup.cfg", workers=1, timeout=120, jvm=["-Xmx1g"])
        a = [p for t, p in r["prints"] if t == "ALPHABET"]
        if not a:
            raise ToolError("Soup.tla did not print its alphabets:\n" + tlc_error_text(r))
        tx = lambda seqs: ["".join(chr(c) for c in s) for s in seqs]
        _alpha = {"struct": tx(a[0]["struct"]), "full": tx(a[0]["full"]), "seps": tx(a[0]["seps"])}
    return _alpha


def soup_tasks(which, length, cfgs, chunks=128, **kw):
    al = alphabets()
    params = {"alphabet": al[which], "len": length, "seps": al["seps"]}
    n = len(al[which]) ** length * len(al["seps"])
    return split_tasks("soup", params, n, [], cfgs, chunks=chunks, cfg_mode="rotate", **kw), n


def walk_tasks(count, cfgs, chunks=32, min_len=4, max_len=40, **kw):
    al = alphabets()
    params = {"alphabet": al["full"], "count": count, "seed": SEED, "min_len": min_len, "max_len": max_len}
    return split_tasks("walk", params, count, [], cfgs, chunks=chunks, cfg_mode="rotate", **kw)


BOUNDARY_CHARS = ([chr(c) for c in (9, 10, 13, 11, 12, 1, 31, 32, 33, 39, 47, 48, 57, 58, 64, 65, 70, 71, 90, 91, 95, 96, 97, 102, 103, 122, 123, 125, 127, 128, 160,
                                     0x2028, 0x2FFF, 0x3000, 0x3001, 0x303F, 0xFEFF, 0xFFFD, 0x1F603)]
                  + list("abe;:=.,()[]<>+-*/@^#$%&{}!?~|`") + [chr(39), chr(34), "//", "{$", "(*", "*)", chr(39) * 3, "begin", "end", "asm", "\n", "\n", " ", " "])


def char_tasks(count, cfgs, chunks=32, **kw):
    """random texts over single characters from every class boundary of the lexical rules ("arbitrary text")"""
    params = {"alphabet": BOUNDARY_CHARS, "count": count, "seed": SEED + 17, "min_len": 1, "max_len": 30, "raw": True}
    return split_tasks("walk", params, count, [], cfgs, chunks=chunks, cfg_mode="rotate", **kw)


def mlshape_tasks(tier, cfgs, chunks=32, **kw):
    """statements holding two or three multi-line literals: container x suffix x per-literal displacement (0 = in place)"""
    params = {"max": Q(tier, 6000, 80000)}
    return split_tasks("mlshapes", params, suite_len("mlshapes", params), [], cfgs, chunks=chunks, **kw)


def seed_tasks(cfgs, chunks=32, **kw):
    n = suite_len("seeds", {})
    return split_tasks("seeds", {}, n, [], cfgs, chunks=chunks, wrap_hint=True, **kw)


def trunc_tasks(cfgs, stride, chunks=64, **kw):
    params = {"stride": stride}
    n = suite_len("truncations", params)
    return split_tasks("truncations", params, n, [], cfgs, chunks=chunks, cfg_mode="rotate", wrap_hint=True, **kw)


def splice_tasks(count, cfgs, chunks=32, **kw):
    params = {"count": count, "seed": SEED}
    return split_tasks("splices", params, count, [], cfgs, chunks=chunks, cfg_mode="rotate", **kw)


def texts_tasks(path, cfgs, chunks=16, **kw):
    params = {"path": path}
    n = suite_len("texts", params)
    return split_tasks("texts", params, n, [], cfgs, chunks=chunks, **kw)


def replay(prop, path):
    """Re-run the case of a replay file against the current tree and print what the property's monitor says."""
    build(("release",))
    v = json.load(open(path))
    case = v.get("case") or {}
    tf = os.path.join(WORK, "replay.texts.ndjson")
    write_ndjson(tf, [{"text": case.get("text", ""), "wf": case.get("wf", False), "label": case.get("label", "replay"), "meta": case.get("meta")}])
    c = Check(prop, "quick", "exploration")
    cfg = case.get("cfg") or {}
    tasks = texts_tasks(tf, [cfg] if cfg else "default", chunks=1, sample_every=1)
    c.explore(tasks, "replay", [prop, "C04"] if prop != "C04" else ["C04"])
    for x in c.violations:
        print(f"VIOLATION property={prop} replay={path}")
        log(f"   {x.get('clause')}: {x.get('detail')}")
    return 1 if c.violations else 0


# =====================================================================================================  C13

LEXER_MC = {"quick": ["gen3", "bnd3", "ml7", "str5", "num4", "dir4", "asm4", "asmq5", "word4", "ctx3"],
            "thorough": ["gen3", "bnd3", "ml7", "gen4", "str5", "str7", "num5", "dir5", "dir6", "asm6", "asmq5", "word5", "ctx3"]}


def lexer_mc_and_replay(c, tier, limit_replay=None):
    """MC of the scanner machine and replay of every enumerated behaviour into the real scanner (exact agreement)."""
    total_beh = 0
    for name in LEXER_MC[tier]:
        r = c.mc("MC_Lexer", f"MC_Lexer_{name}.cfg", workers=8, timeout=3000)
        beh = [p for t, p in r["replay"]]
        if not beh:
            c.tool_errors.append(f"MC_Lexer_{name}: no behaviours printed")
            continue
        bf = os.path.join(WORK, f"lex_{name}.beh.ndjson")
        mf = os.path.join(WORK, f"lex_{name}.mismatch.ndjson")
        write_ndjson(bf, beh)
        rr = run([VH, "replay", "lex", bf, mf], timeout=Q(tier, 1800, 14400))
        st = json.loads(rr.stdout.strip().splitlines()[-1])
        total_beh += st["replayed"]
        if len(c.samples) < 4:
            c.samples.append({"spec_behaviour": beh[len(beh) // 2]})
        for m in read_ndjson(mf)[:50]:
            c.add_violation({"prop": "C13", "clause": "agrees_with_lexical_rules",
                             "detail": f"spec tokens {json.dumps(m['spec'])} vs scanner {json.dumps(m['impl'])}",
                             "case": {"text": m["text"], "label": f"MC_Lexer_{name}", "cfg": None}, "confirmed_by_tlc": True})
        if st["mismatches"]:
            c.extra["violations_total"] = c.extra.get("violations_total", 0) + max(0, st["mismatches"] - 50)
    c.extra["spec_behaviours_replayed"] = total_beh
    c.traces_validated += 0
    return total_beh


def grid_params(tier):
    lens_q = list(range(1, 41)) + [63, 64, 65, 66, 95, 96, 97, 98, 127, 128, 129, 130, 200]
    return {
        "kinds": ["ident", "ident_", "uident", "keyword", "kwsuffix", "decimal", "hex", "binary", "digits", "hexdigits"],
        "lens": Q(tier, lens_q, list(range(1, 201))),
        "rems": Q(tier, [0, 1, 5, 30, 31, 32, 33, 64], [0, 1, 2, 5, 30, 31, 32, 33, 34, 63, 64, 65]),
        "offsets": Q(tier, [0, 1, 7, 31, 32, 33, 64], list(range(0, 65))),
        "delims": [" ", "\n", "　", ";", "(", ".", "+", "'", "{", "!", "é", "\U0001F603", "\x7f", "\x00", ":", "e", "_", "9"],
        "tails": ["spaces", "code", "nonascii"],
    }


def delims_params(tier):
    """delimited tokens: literal / comment / directive kinds x body length x a multi-byte character x its byte position in the token x
    termination (closed, end of line, end of file); positions and lengths straddle the 50-byte prefix quoted in diagnostics and the
    vector widths of the scanner"""
    return {
        "kinds": ["str", "brace", "paren", "line", "dir", "pdir", "ifdir", "mlstr"],
        "lens": Q(tier, [1, 2, 3, 10, 30, 31, 32, 33, 46, 47, 48, 49, 50, 51, 52, 53, 63, 64, 65, 100, 255, 256, 257], list(range(1, 140)) + [255, 256, 257, 511, 512, 513]),
        "mbs": ["", "\u00e9", "\u30c6", "\U0001F603"],
        "positions": Q(tier, [1, 2, 3, 9, 10, 15, 16, 17, 30, 31, 32, 33, 46, 47, 48, 49, 50, 51, 52, 63, 64, 65], list(range(1, 70))),
        "terms": ["closed", "eol", "eof"],
    }


def c13(tier):
    build(("release",))
    c = Check("C13", tier, "model_checking")
    nbeh = lexer_mc_and_replay(c, tier)
    # implementation -> spec: real token lists of long inputs; lossless clauses on everything, agreement with the
    # specification's scanner decided by TLC on the sampled sessions, the grid carries its own expectations
    props = ["C13"]
    gp = grid_params(tier)
    n = suite_len("grid", gp)
    tasks = split_tasks("grid", gp, n, props, "default", chunks=128, sample_every=Q(tier, 4001, 20011))
    c.explore(tasks, "grid", props, sample_cap=Q(tier, 120, 600))
    dp = delims_params(tier)
    tasks = split_tasks("delims", dp, suite_len("delims", dp), props, "default", chunks=32, sample_every=Q(tier, 401, 2003))
    nn = {"count": Q(tier, 20000, 1000000), "seed": SEED + 5}
    tasks += split_tasks("dirnest", nn, nn["count"], props, "default", chunks=32, sample_every=Q(tier, 101, 4001))
    c.explore(tasks, "delimited", props, sample_cap=Q(tier, 300, 1500))
    tasks = seed_tasks("default", sample_every=Q(tier, 7, 3))
    tasks += splice_tasks(Q(tier, 3000, 100000), "default", sample_every=Q(tier, 97, 997))
    tasks += walk_tasks(Q(tier, 20000, 1000000), "default", sample_every=Q(tier, 197, 9973))
    tasks += char_tasks(Q(tier, 100000, 3000000), "default", sample_every=Q(tier, 499, 49999))
    t2, _ = soup_tasks("full", 2, "default", sample_every=Q(tier, 211, 101))
    c.explore(tasks + t2, "corpus", props, sample_cap=Q(tier, 400, 2500))
    c.exhaustive = True
    return c.finish(
        rule="(1) every text of <= N code points over the alphabets of MC_Lexer_*.cfg is scanned by the specification (TLC, exhaustive) and the same text by the real scanner: token lists must be equal; "
             "(2) grid cells (word kind x length x bytes remaining x offset x delimiter x tail) with the generator's own expectation for the word's boundaries/kind and the three identifier routines (generic, avx2, dispatched); "
             "(2b) delimited tokens (literal / comment / directive kind x body length x multi-byte character x its byte position x closed / ends with the line / ends with the file) and random nested expression directives hiding every closer inside strings, comments and nested directives, each with the generator's expectation for the token's boundaries; a logger at the command line's default level is installed so that the diagnostics are built as in a real run; "
             "(3) seeds, splices, soup and random walks: lossless clauses on every input, and agreement with Lexer.tla decided by TLC on the sampled ones. "
             "distinct_nontrivial counts inputs on which a C13 clause was evaluated.",
        assumptions=["the CPU of this machine selects the AVX2 routine; the generic routine is driven directly through the hook",
                     "code points, not bytes, are the unit of the specification; char-boundary safety is the harness's slicing (a panic would be reported)"])


# =====================================================================================================  C04

def directive_tree_mc(c, tier):
    """MC of the pass iterator (DirectiveTree.tla) and replay of every enumerated sequence into the real parser."""
    c.mc("MC_DirectiveTree", "MC_DirectiveTree_bug.cfg", expect_violation=True, workers=4, timeout=600)
    # every short sequence, and the scaled families (one section with up to 46 alternatives, ladders, nests, ...)
    for cfgname in [Q(tier, "MC_DirectiveTree.cfg", "MC_DirectiveTree_8.cfg"), "MC_DirectiveTree_long.cfg"]:
        r = c.mc("MC_DirectiveTree", cfgname, workers=8, timeout=3000)
        beh = [p for t, p in r["replay"]]
        bf, mf = os.path.join(WORK, f"{c.prop}_{cfgname}.beh.ndjson"), os.path.join(WORK, f"{c.prop}_{cfgname}.mismatch.ndjson")
        write_ndjson(bf, beh)
        rr = run([VH, "replay", "passes", bf, mf], timeout=3000)
        st = json.loads(rr.stdout.strip().splitlines()[-1])
        c.extra["pass_behaviours_replayed"] = c.extra.get("pass_behaviours_replayed", 0) + st["replayed"]
        c.traces_validated += st["replayed"]
        if beh and cfgname != "MC_DirectiveTree_long.cfg":
            c.samples.append({"directive_behaviour": beh[len(beh) // 2]})
        for m in read_ndjson(mf):
            # fidelity of the pass model (R1): a different but still complete, increasing and linear pass selection is not
            # a violation; the invariants of MC_DirectiveTree (Cover, Increasing, OnlyPlain, PassBound) decide
            toks, impl = m["toks"], m["impl"]
            bad = None
            if isinstance(impl, dict):
                bad = ("panic", impl.get("panic"))
            else:
                plain = {i + 1 for i, t in enumerate(toks) if t == "p"}
                seen = set()
                for ps in impl:
                    if any(a >= b for a, b in zip(ps, ps[1:])):
                        bad = ("increasing", f"pass {ps}")
                    if not set(ps) <= plain:
                        bad = ("only_plain", f"pass {ps} visits a directive")
                    seen |= set(ps)
                if plain - seen:
                    bad = ("cover", f"positions {sorted(plain - seen)[:8]} are visited by no pass ({len(impl)} passes)")
                if len(impl) > len(toks):
                    bad = ("pass_bound", f"{len(impl)} passes for {len(toks)} tokens")
            if bad and bad[0] in ("cover", "increasing", "only_plain") and c.prop == "C14" or bad and bad[0] in ("pass_bound", "panic") and c.prop == "C04":
                c.add_violation({"prop": c.prop, "clause": "passes_" + bad[0], "detail": f"directive sequence of {len(toks)} classes {toks[:12]}...: {bad[1]}",
                                 "case": {"label": "MC_DirectiveTree", "text": m.get("text")}, "confirmed_by_tlc": True})
            elif len(c.drift) < 5:
                c.drift.append({"module": "DirectiveTree", "text": m["text"][:300], "spec": m["spec"], "impl": m["impl"]})
        if st["mismatches"]:
            c.extra["model_drift_DirectiveTree"] = c.extra.get("model_drift_DirectiveTree", 0) + st["mismatches"]
            c.notes.append("MODEL-DRIFT DirectiveTree (%s): the real pass iterator differs from the model on %d sequences" % (cfgname, st["mismatches"]))


def c04(tier):
    build(("release", "checked"))
    c = Check("C04", tier, "model_checking")
    directive_tree_mc(c, tier)
    r = c.mc("MC_Lexer", "MC_Lexer_gen3.cfg", workers=8, timeout=1800)      # the scanner's progress property ([][pos' > pos])
    # every literal of the literal machine (bodies over blanks of one, two and three bytes, quotes, breaks) through the
    # real re-indentation: an abort there is a C04 violation
    mlstring_mc_and_replay(c, tier)
    props = ["C04", "C15"]       # cursor lists are part of C04's quantifier; C15 makes the harness pass them
    for vh, label in ((VH, "release"), (VH_CHECKED, "checked")):
        tasks, n2 = soup_tasks("full", 2, "six")
        t3, n3 = soup_tasks("struct", 3, "six")
        tasks += t3
        if tier == "thorough":
            t, _ = soup_tasks("full", 3, "six", chunks=512)
            tasks += t
            if label == "release":
                t, _ = soup_tasks("struct", 4, "six", chunks=512)
                tasks += t
        tasks += trunc_tasks("six", Q(tier, 7, 1))
        tasks += splice_tasks(Q(tier, 4000, 60000), "six")
        tasks += walk_tasks(Q(tier, 20000, 300000), "six")
        tasks += char_tasks(Q(tier, 60000, 1000000), "six")
        tasks += seed_tasks("wide" if tier == "thorough" else "six")
        tasks += texts_tasks(dirblock_programs(c, tier), "six", chunks=32, cfg_mode="rotate")
        c.explore(tasks, f"soup_{label}", props, vh=vh, timeout_ms=Q(tier, 2000, 10000), sample_cap=Q(tier, 60, 300))
        if label == "checked":
            # every configuration of the wide set (units and continuations of 0..255 columns, widths 0 .. 2^32-1) with the
            # arithmetic checks of a debug build
            c.explore(seed_tasks("wide", cfg_mode="rotate") + program_tasks(tier, "wide", [PLAIN], cfg_mode="rotate") + seed_tasks("overflow", cfg_mode="rotate"),
                      "wide_checked", props, vh=vh, timeout_ms=Q(tier, 2000, 10000), sample_cap=Q(tier, 10, 40))
        # scaled shapes (hundreds of sections, thousands of statements): the time limit grows with the input, polynomially
        # (the monitors of the harness run inside the same limit)
        c.explore(split_tasks("scaled", {"max_k": Q(tier, 30, 60)}, Q(tier, 30, 60) * 18, [], "six", chunks=16), f"scaled_{label}", props, vh=vh, timeout_ms=Q(tier, 30000, 60000), sample_cap=Q(tier, 10, 40))
    # very deep nesting through the command line (a stack overflow kills the process: it cannot be observed in-process)
    import cli, subprocess as sp
    build(("cli",))
    os.makedirs(cli.CLI_ROOT, exist_ok=True)
    for shape, mk in (("begin", lambda n: "begin " * n + "x;" + " end;" * n + "\n"), ("paren", lambda n: "x := " + "(" * n + "1" + ")" * n + ";\n"),
                      ("ifthen", lambda n: "if a then " * n + "x;\n"), ("record", lambda n: "type T = " + "record a: " * n + "Integer;" + " end;" * n + "\n")):
        for n in Q(tier, [300, 1000, 2500, 5000, 20000], [300, 1000, 2500, 5000, 10000, 20000, 50000]):
            try:
                r = sp.run([PASFMT], input=mk(n).encode(), stdout=sp.PIPE, stderr=sp.PIPE, cwd=cli.CLI_ROOT, timeout=Q(tier, 120, 600))
                rc, err = r.returncode, r.stderr[-160:].decode(errors="replace")
            except sp.TimeoutExpired:
                rc, err = -999, "timeout"
            c.evaluations += 1
            c.nontrivial += 1
            if rc != 0:
                site = " [site: more than 4000 nested constructs]" if n > 4000 else ""
                c.add_violation({"prop": "C04", "clause": "abort" if rc != -999 else "hang", "detail": f"{n} nested `{shape}` constructs: exit status {rc}: {' '.join(err.split())[-140:]}{site}",
                                 "case": {"label": f"deep:{shape}:{n}", "text": mk(n)[:200]}, "confirmed_by_tlc": True})
    # very LONG flat lists (work and stack must not grow with the number of siblings): release binary and the harness
    # binary built with debug assertions (no tail-call elimination there)
    flat = (("statements", lambda n: "begin\n" + "x;\n" * n + "end.\n"), ("assignments", lambda n: "begin " + "a := 1; " * n + "end.\n"),
            ("declarations", lambda n: "var\n" + "".join(f"  a{k}: T;\n" for k in range(n))), ("routines", lambda n: "procedure p; begin end;\n" * n),
            ("case arms", lambda n: "begin case x of " + "".join(f"{k}: y; " for k in range(n)) + "end end.\n"), ("fields", lambda n: "type T = record " + "".join(f"f{k}: I; " for k in range(n)) + "end;\n"),
            ("uses", lambda n: "uses " + ", ".join(f"u{k}" for k in range(n)) + ";\n"), ("arguments", lambda n: "begin f(" + ", ".join("1" for k in range(n)) + "); end.\n"),
            ("sections", lambda n: "{$ifdef A}x;{$endif}\n" * n), ("consts", lambda n: "const\n" + "".join(f"  c{k} = {k};\n" for k in range(n))))
    for shape, mk in flat:
        for n in Q(tier, [60000, 150000], [60000, 150000, 400000]):
            if shape in ("arguments", "uses") and n > 60000:
                continue        # (one logical line: the optimiser's budget per line applies, the cost is that of `scaled`)
            for binary, how in (([PASFMT], "release"), ([VH_CHECKED, "fmt", "{}"], "checked")):
                try:
                    r = sp.run(binary, input=mk(n).encode(), stdout=sp.PIPE, stderr=sp.PIPE, cwd=cli.CLI_ROOT, timeout=Q(tier, 300, 900))
                    rc, err = r.returncode, r.stderr[-160:].decode(errors="replace")
                except sp.TimeoutExpired:
                    rc, err = -999, "timeout"
                c.evaluations += 1
                c.nontrivial += 1
                if rc != 0:
                    c.add_violation({"prop": "C04", "clause": "abort" if rc != -999 else "hang", "detail": f"a flat list of {n} {shape} ({how} build): exit status {rc}: {' '.join(err.split())[-140:]}",
                                     "case": {"label": f"flat:{shape}:{n}:{how}", "text": mk(n)[:200]}, "confirmed_by_tlc": True})
    c.exhaustive = True
    return c.finish(
        rule="every sequence of <= 2 tokens over the full alphabet of Soup.tla and <= 3 over the structural one (thorough: 3 / 4), x 2 separators, "
             "seeds truncated at token boundaries, spliced seeds, random soup walks, each under rotating configurations and with a cursor list; "
             "run in worker processes with a watchdog, in a release build and in a build with overflow checks and debug assertions. "
             "non-trivial = the call returned (no abort, no hang)",
        assumptions=["a hang is a call that makes no progress for the watchdog period (2 s quick / 10 s thorough) on inputs of < 2 kB"])


# =====================================================================================================  C01 / C08 / C14

def basic_corpus(tier, cfgs_soup="six", sample=True):
    s = (lambda q, t: Q(tier, q, t)) if sample else (lambda q, t: 0)
    tasks, _ = soup_tasks("full", 2, cfgs_soup, sample_every=s(997, 499))
    t3, _ = soup_tasks("struct", 3, cfgs_soup, sample_every=s(9973, 4999))
    tasks += t3
    if tier == "thorough":
        t, _ = soup_tasks("full", 3, cfgs_soup, chunks=512, sample_every=s(0, 99991))
        tasks += t
    tasks += trunc_tasks(cfgs_soup, Q(tier, 5, 1), sample_every=s(499, 997))
    tasks += splice_tasks(Q(tier, 4000, 60000), cfgs_soup, sample_every=s(199, 997))
    tasks += walk_tasks(Q(tier, 20000, 300000), cfgs_soup, sample_every=s(997, 4999))
    tasks += char_tasks(Q(tier, 60000, 1500000), cfgs_soup, sample_every=s(1999, 49999))
    tasks += seed_tasks("wide" if tier == "thorough" else "six", sample_every=s(41, 97))
    return tasks


def recon_mc_and_replay(c, tier, pinned):
    """MC of the reconstructor (MC_Recon) and replay of every enumerated token table through the real reconstructor.
    pinned: the property pins the rendering down (C09 line ending, C10 arithmetic): a mismatch is a violation, else drift."""
    c.mc("MC_Recon", "MC_Recon_bug.cfg", expect_violation=True, workers=4, timeout=600)
    for cfgname in Q(tier, ["MC_Recon.cfg", "MC_Recon_free.cfg"], ["MC_Recon_thorough.cfg", "MC_Recon_free.cfg"]):
        r = c.mc("MC_Recon", cfgname, workers=8, timeout=3000)
        beh = [p for t, p in r["replay"]]
        bf = os.path.join(WORK, f"{c.prop}_{cfgname}.beh.ndjson")
        mf = os.path.join(WORK, f"{c.prop}_{cfgname}.mismatch.ndjson")
        write_ndjson(bf, beh)
        rr = run([VH, "replay", "recon", bf, mf], timeout=3000)
        st = json.loads(rr.stdout.strip().splitlines()[-1])
        c.extra["token_tables_replayed"] = c.extra.get("token_tables_replayed", 0) + st["replayed"]
        c.traces_validated += st["replayed"]
        if beh and len(c.samples) < 3:
            c.samples.append({"reconstructor_behaviour": beh[len(beh) // 3]})
        mism = read_ndjson(mf)
        for m in mism[:20]:
            if pinned:
                c.add_violation({"prop": c.prop, "clause": "rendering", "detail": f"final table {json.dumps(m['toks'])[:400]} under {m['cfg']}: the reconstructor emits {m['impl']!r}, the rendering rules give {m['spec']!r}",
                                 "case": {"label": "MC_Recon table", "cfg": m["cfg"]}, "confirmed_by_tlc": True})
            elif len(c.drift) < 5:
                c.drift.append(m)
        if mism and not pinned:
            c.notes.append(f"MODEL-DRIFT Recon ({cfgname}): {len(mism)} token tables are rendered differently from the model")
            c.extra["model_drift_Recon"] = c.extra.get("model_drift_Recon", 0) + len(mism)


def c01(tier):
    build(("release",))
    c = Check("C01", tier, "model_checking")
    mlstring_mc_and_replay(c, tier)
    comment_mc_and_replay(c, tier)
    tasks = basic_corpus(tier)
    tasks += program_tasks(tier, "six", [COMMENTS, DIRECTIVES, CRCOMMENTS, REGIONS], cfg_mode="rotate", sample_every=Q(tier, 499, 4999))
    tasks += mlshape_tasks(tier, "six", cfg_mode="rotate", sample_every=Q(tier, 997, 9973))
    c.explore(tasks, "corpus", ["C01"], sample_cap=Q(tier, 250, 1500))
    # as the command line delivers it: several files in one invocation (sizes up to a few MiB, BOM forms, a text that starts with U+FEFF)
    import cli
    build(("cli",))
    texts = seed_texts(100)
    scen = [{"n": [4, 16, 16, 9][i % 4], "big": [0, 300 * 1024, 1300 * 1024, 5 * 1024 * 1024][i % (3 if tier == "quick" else 4)], "seed": SEED * 31 + i} for i in range(Q(tier, 6, 40))]
    for sc, (problems, skipped) in zip(scen, cli.run_scenarios(lambda i, sc: cli.run_nonblank_batch(i, sc, texts), scen, threads=3)):
        if skipped:
            continue
        c.evaluations += 1
        c.nontrivial += 1
        c.extra["cli_batches"] = c.extra.get("cli_batches", 0) + 1
        for p in problems:
            c.add_violation({"prop": "C01", "clause": p["clause"], "detail": p["detail"], "case": {"label": "cli-batch", "scenario": sc}, "confirmed_by_tlc": True})
    return c.finish(
        rule="token soup (exhaustive to length 2 over the full alphabet, 3 over the structural one; thorough 3 full), truncated and spliced seeds, random walks, seeds; rotating configurations. "
             "The non-blank sequence of input and output is compared on every call; TLC re-decides C01 (Props.tla) on the sampled and on all flagged sessions.")


def c08(tier):
    build(("release",))
    c = Check("C08", tier, "model_checking")
    recon_mc_and_replay(c, tier, False)
    tasks = basic_corpus(tier) + program_tasks(tier, "six", [REGIONS2, REGIONS3, COMMENTS], cfg_mode="rotate", sample_every=Q(tier, 499, 4999))
    tasks += texts_tasks(dirblock_programs(c, tier), "six", chunks=32, cfg_mode="rotate", sample_every=Q(tier, 997, 9973))
    # every configuration of the wide set (units of 1..255 columns, continuations wider than the line) on the seeds and on
    # generated programs; deep nesting (indentation beyond 100 and 255 columns) under every unit
    tasks += seed_tasks("wide", sample_every=Q(tier, 997, 4999)) if tier == "quick" else []
    tasks += program_tasks(tier, "wide", [PLAIN, MIXED], cfg_mode="rotate", sample_every=Q(tier, 997, 9973))
    tasks += split_tasks("scaled", {"max_k": Q(tier, 40, 80)}, Q(tier, 40, 80) * 18, [], "wide", chunks=32, sample_every=Q(tier, 499, 4999))
    c.explore(tasks, "corpus", ["C08"], sample_cap=Q(tier, 250, 1500))
    return c.finish(
        rule="as C01, plus generated programs with one or two verbatim regions (also inside one statement) and blank-line runs in the middle of statements; the whitespace predicates of Props.tla (WhitespaceViolations) are evaluated on the final token table of every call; the end-of-file clause on well-formed inputs (seeds) only")


def c14(tier):
    build(("release",))
    c = Check("C14", tier, "model_checking")
    directive_tree_mc(c, tier)
    tasks = basic_corpus(tier, cfgs_soup="default")
    tasks += split_tasks("scaled", {"max_k": Q(tier, 40, 80)}, Q(tier, 40, 80) * 18, [], "default", chunks=16, sample_every=Q(tier, 97, 499))
    tasks += program_tasks(tier, "default", [PLAIN, COMMENTS, DIRECTIVES, MIXED, REGIONS], sample_every=Q(tier, 499, 4999))
    tasks += texts_tasks(dirblock_programs(c, tier), "default", chunks=32, sample_every=Q(tier, 997, 9973))
    c.explore(tasks, "corpus", ["C14"], sample_cap=Q(tier, 250, 1500))
    return c.finish(
        rule="MC_DirectiveTree: the pass iterator over every sequence of <= 6 (thorough 8) token classes and over scaled families (one section with up to 46 alternatives, ladders, nests, side-by-side and unclosed sections): TLC checks Cover / Increasing / OnlyPlain / PassBound / termination, every behaviour is replayed through the real parser and the real passes must satisfy the same invariants. "
             "DirBlocks: every routine body of <= 7 (11 with single-item branches) items whose compound statements are split over conditional sections and which is well-formed under every valuation of the symbols - including those on which a pass of the formatter sees the program of NO valuation. "
             "As C01 (one configuration: parsing does not depend on it): C14_Violations of Props.tla on the public parser's result for soup, truncated / spliced seeds, walks, scaled shapes (one section with up to 160 alternatives); parent / end-of-file clauses on well-formed inputs (seeds, programs derived from Grammar.tla in five layouts, DirBlocks bodies); a line holding the end-of-file token counts as an end-of-file line")


# =====================================================================================================  C03 / C09 / C10 / C11 / C15
# (well-formed corpus: the repository's seeds; grammar-generated programs are added by gen_tasks once Gen.tla exists)

def wf_corpus(tier, cfgs, sample_q=23, sample_t=211, **kw):
    tasks = seed_tasks(cfgs, sample_every=Q(tier, sample_q, sample_t), **kw)
    try:
        tasks += gen_tasks(tier, cfgs, sample_every=Q(tier, sample_q * 4, sample_t * 4))
    except NameError:
        pass
    return tasks


def c03(tier):
    build(("release",))
    c = Check("C03", tier, "model_checking")
    # the rewriting rules with their own state machines: every enumerated literal / comment, formatted twice
    mlstring_mc_and_replay(c, tier)
    comment_mc_and_replay(c, tier)
    tasks = wf_corpus(tier, Q(tier, "six", "wide")) + texts_tasks(dirblock_programs(c, tier), "six", chunks=32, cfg_mode="rotate", sample_every=Q(tier, 997, 9973))
    tasks += mlshape_tasks(tier, "six", cfg_mode="rotate", sample_every=Q(tier, 997, 9973))
    c.explore(tasks, "wf", ["C03"], sample_cap=Q(tier, 150, 800))
    # the command-line form of the property: check mode accepts what files mode wrote; a second run rewrites nothing
    import cli, random
    build(("cli",))
    rnd = random.Random(SEED)
    texts = seed_texts(Q(tier, 40, 400))
    scen = []
    for i, t in enumerate(texts):
        label, codec, bom = cli.LEGACY[i % len(cli.LEGACY)]
        w = cli.SAMPLE_WORDS.get(codec, "x")
        body = t + f"\n// {w} {w} {w}\nSomeIdentifier := 'a {w} string' + AnotherIdentifier + '{w}' + YetAnotherOne;\n"
        scen.append({"text": body, "option": label, "codec": codec, "bom": list(bom), "cfg": {"wrap_column": rnd.choice([40, 60, 80, 120])}})
    # batches on one or two worker threads: what was just written is accepted next to files that are not formatted
    bsc = [{"n": [6, 15, 16, 30][i % 4], "threads": [1, 2, 1, 16][i % 4], "seed": SEED * 13 + i} for i in range(Q(tier, 8, 60))]
    for sc, (problems, skipped) in zip(bsc, cli.run_scenarios(lambda i, sc: cli.run_idem_batch_scenario(i, sc, texts), bsc, threads=4)):
        if skipped:
            continue
        c.evaluations += 1
        c.nontrivial += 1
        c.extra["cli_batches"] = c.extra.get("cli_batches", 0) + 1
        for p in problems:
            c.add_violation({"prop": "C03", "clause": p["clause"], "detail": p["detail"], "case": {"label": "cli-batch", "scenario": sc}, "confirmed_by_tlc": True})
    res = cli.run_scenarios(cli.run_idem_scenario, scen)
    ran = 0
    for sc, (problems, skipped) in zip(scen, res):
        if skipped:
            continue
        ran += 1
        for p in problems:
            c.add_violation({"prop": "C03", "clause": p["clause"], "detail": p["detail"], "case": {"label": "cli:" + sc["option"], "text": sc["text"]}})
    c.evaluations += ran
    c.nontrivial += ran
    c.extra["cli_histories"] = ran
    return c.finish(
        rule="every seed program (both sides of each data test) and every grammar-generated program is formatted, and the result formatted again with the same configuration (6 / 18 configurations, the first one at the seed's own narrow width); "
             "Session.tla's `idem` relation (precondition b.in = a.out, same configuration) is re-decided by TLC on sampled and flagged histories. non-trivial = histories whose first call returned")


def c09(tier):
    build(("release",))
    c = Check("C09", tier, "model_checking")
    recon_mc_and_replay(c, tier, True)
    tasks = wf_corpus(tier, Q(tier, "six", "wide"))
    t2, _ = soup_tasks("full", 2, "six", sample_every=Q(tier, 1999, 499))
    tasks += t2 + splice_tasks(Q(tier, 2000, 30000), "six", sample_every=Q(tier, 199, 997)) + walk_tasks(Q(tier, 5000, 100000), "six", sample_every=997)
    c.explore(tasks, "le", ["C09"], sample_cap=Q(tier, 150, 300))
    # through the command line: a file that differs from the result only in its terminators is still rewritten
    import cli
    build(("cli",))
    texts = seed_texts(Q(tier, 30, 300))
    scen = [{"text": t, "file_eol": fe, "option": op} for i, t in enumerate(texts) for (fe, op) in (("lf", "crlf"), ("crlf", "lf"), ("lf", "lf"), ("crlf", "crlf"), ("lf", "crlf"))[i % 3:][:3]]
    res = cli.run_scenarios(cli.run_eol_scenario, scen)
    ran = 0
    for sc, (problems, skipped) in zip(scen, res):
        if skipped:
            continue
        ran += 1
        for p in problems:
            c.add_violation({"prop": "C09", "clause": p["clause"], "detail": p["detail"], "case": {"label": f"cli:{sc['file_eol']}->{sc['option']}", "text": sc["text"]}})
    c.evaluations += ran
    c.nontrivial += ran
    c.extra["cli_scenarios"] = ran
    return c.finish(
        rule="each input is formatted under lf and crlf (relation lecfg: results equal up to the terminator) and, when it has no CR and no verbatim line-spanning token, as LF and as CRLF text (relation lein: results identical); "
             "every emitted break (between tokens, inside re-indented strings) must be the configured one; through the command line: files, stdout and check mode on files whose terminators are / are not the configured ones")


def c10(tier):
    build(("release",))
    c = Check("C10", tier, "model_checking")
    recon_mc_and_replay(c, tier, True)
    grid = [0, 1, 2, 3, 4, 8, 16, 127, 128, 255]
    cfgs = []
    import random
    rnd = random.Random(SEED)
    pairs = [(a, b) for a in grid for b in grid]
    if tier == "thorough":
        pairs += [(rnd.randrange(256), rnd.randrange(256)) for _ in range(400)]
    for tw, ci in pairs:
        cfgs.append({"tab_width": tw, "continuation_indents": ci, "wrap_column": 4294967295})
    tasks = seed_tasks(cfgs, cfg_mode="rotate", sample_every=Q(tier, 29, 97))
    if tier == "thorough":
        tasks += seed_tasks(cfgs[:100], sample_every=9973)
    try:
        tasks += gen_tasks(tier, cfgs, cfg_mode="rotate", sample_every=Q(tier, 97, 997))
    except NameError:
        pass
    # text that is kept verbatim next to formatted lines, indented with the OTHER character (tab-indented sources with
    # `pasfmt off` regions, asm bodies): the indentation of a formatted line is built from the settings, never copied
    cfgs2 = [{"tab_width": tw, "continuation_indents": ci, "wrap_column": 4294967295} for tw, ci in [(1, 1), (2, 1), (1, 2), (2, 2), (3, 1), (4, 2), (1, 0), (8, 1)]]
    tasks += program_tasks(tier, cfgs2, [REGIONS, {"mode": 4, "regions": True, "blank_lines": True}, {"mode": 4, "regions": True, "regions2": True, "comments": True}],
                           cfg_mode="rotate", sample_every=Q(tier, 499, 4999))
    na = Q(tier, 3000, 30000)
    tasks += split_tasks("asm", {"count": na, "seed": SEED + 2}, na, [], cfgs2, chunks=16, cfg_mode="rotate", sample_every=Q(tier, 499, 4999))
    c.explore(tasks, "tabs", ["C10"], sample_cap=Q(tier, 150, 800))
    return c.finish(
        rule="seeds, generated programs (also tab-indented sources with verbatim regions) and asm bodies, wrap_column = 2^32-1, (tab_width, continuation_indents) over {0,1,2,3,4,8,16,127,128,255}^2 (thorough: + 400 random pairs, and the full product on the first 100 pairs): "
             "use_tabs result with leading tabs expanded = use_tabs=false result (relation tabs), and every line's indentation = (levels + ci*continuations) units on the final table of both runs")


def c11(tier):
    build(("release",))
    c = Check("C11", tier, "exploration")
    # "x other settings": the widths are varied by the harness; everything else rotates
    cfgs = [{}, {"begin_style": "always_wrap"}, {"format_multiline_strings": False}, {"continuation_indents": 1}, {"continuation_indents": 3, "tab_width": 3},
            {"begin_style": "always_wrap", "continuation_indents": 4, "tab_width": 4}, {"tab_width": 4, "continuation_indents": 1}, {"line_ending": "crlf", "format_multiline_strings": False, "continuation_indents": 0}]
    tasks = seed_tasks(cfgs, sample_every=Q(tier, 211, 499), cfg_mode="rotate")
    if tier == "thorough":
        tasks += seed_tasks(cfgs[:4], sample_every=499)
    tasks += program_tasks(tier, cfgs, [PLAIN, COMMENTS], cfg_mode="rotate", sample_every=Q(tier, 499, 4999))
    tasks += mlshape_tasks(tier, cfgs, cfg_mode="rotate", sample_every=Q(tier, 997, 9973))
    c.explore(tasks, "width", ["C11"], sample_cap=Q(tier, 12, 100))
    return c.finish(
        rule="seeds, generated programs and statements with several multi-line literals, formatted at widths {10,20,40,80,120,200} plus the critical widths around the line lengths of their own output, under rotating settings of begin_style, format_multiline_strings, continuation_indents, tab_width and line_ending (spaces only: a tab has no column width of its own); every pair W1 < W2 is a `width` relation of Session.tla (three clauses)")


def c15(tier):
    build(("release", "checked"))
    c = Check("C15", tier, "model_checking")
    for vh, label in ((VH, "release"), (VH_CHECKED, "checked")):
        tasks = wf_corpus(tier, Q(tier, "two", "six"), sample_q=37, sample_t=211)
        t2, _ = soup_tasks("full", 2, "six", sample_every=Q(tier, 1999, 997))
        tasks += t2 + trunc_tasks("six", Q(tier, 11, 2), sample_every=997) + walk_tasks(Q(tier, 5000, 100000), "six", sample_every=997)
        # columns and line counts beyond 16 bits: a literal of 70 000 bytes on one line followed by blanks, 70 000 line breaks between two tokens
        big = os.path.join(WORK, "c15_big.ndjson")
        write_ndjson(big, [
            {"text": "x := '" + "a" * 70000 + "'      ;\ny := 2;\n", "wf": True, "label": "longline:literal"},
            {"text": "x := 1;" + "\n" * 70000 + "y := 2;\n", "wf": True, "label": "longline:blank-lines"},
            {"text": "x := 1; {" + "c" * 66000 + "\n" + "d" * 10 + "}   y := 2;\n", "wf": True, "label": "longline:comment"},
            {"text": "Foo(" + ", ".join(f"Arg{k}" for k in range(9000)) + ")      ;\n", "wf": True, "label": "longline:call"},
        ])
        tasks += texts_tasks(big, "two", chunks=4)
        # CRLF sources: the line breaks inside multi-line comments and literals are CRLF too
        tasks += program_tasks(tier, "six", [CRLFML, CRLFML2], cfg_mode="rotate", sample_every=Q(tier, 499, 4999))
        c.explore(tasks, f"cursors_{label}", ["C15"], vh=vh, sample_cap=Q(tier, 100, 500))
    # through the command line (anchor: exec_format / output_new_cursors): what it reports is what the core computes
    import cli, random
    build(("cli",))
    rnd = random.Random(SEED)
    scen = []
    for i, t in enumerate(seed_texts(Q(tier, 60, 600))):
        if i % 2 == 0:
            t = t.rstrip()                       # no final line break: the formatter appends one
        n = len(t.encode())
        ascii_only = t.isascii()
        inner = sorted(rnd.sample(range(0, n + 1), min(6, n + 1))) if ascii_only else [0]
        cur = inner + [n, n + 1, n + 100, 4000000000]
        if i % 3 == 1:
            cur = list(reversed(cur))
        scen.append({"text": t, "cursors": cur})
    res = cli.run_scenarios(cli.run_cursor_scenario, scen)
    ran = 0
    for sc, (problems, skipped) in zip(scen, res):
        if skipped:
            continue
        ran += 1
        for p in problems:
            c.add_violation({"prop": "C15", "clause": p["clause"], "detail": p["detail"], "case": {"label": "cli-cursors", "text": sc["text"]}, "confirmed_by_tlc": True})
    c.evaluations += ran
    c.nontrivial += ran
    c.extra["cli_cursor_scenarios"] = ran
    return c.finish(
        rule="for every input a cursor list (every token start and end, offsets inside blanks and inside multi-line tokens, 0, end, end+1, end+7, 2^32-1; at most 400 per input; in ascending, descending, interleaved or repeated order) is tracked; inputs: seeds, programs derived from Grammar.tla (also as CRLF sources whose multi-line comments and literals hold CRLF), soup, truncations, walks; "
             "clauses: text unchanged (relation cursor), within output on a character boundary, same offset inside an unchanged token, beyond the end -> end; through the command line (stdin and file, inputs with and without a final line break, cursors up to 4e9, ascending and descending): the CURSOR line equals what the core computes for the same text")


# =====================================================================================================  grammar-generated programs

_progs = {}


def gen_programs(tier, which=("file", "stmts", "types", "routine", "anon", "carry")):
    """TLC derives programs from Grammar.tla (simulation of Gen.tla); returns the path of the ndjson file."""
    key = (tier, tuple(which))
    if key in _progs:
        return _progs[key]
    num = Q(tier, {"file": 500, "stmts": 700, "types": 300, "routine": 300, "anon": 400, "carry": 300}, {"file": 20000, "stmts": 30000, "types": 12000, "routine": 12000, "anon": 6000, "carry": 4000})
    progs, seen = [], set()
    cov = {}
    for w in which:
        r = tlc("Gen", f"Gen_{w}.cfg", workers=1, timeout=1800, simulate=num[w], depth=4000, name=f"gen_{w}", jvm=["-Xmx4g", "-Xss64m"], coverage=False)
        beh = [p for t, p in r["replay"]]
        if not beh:
            raise ToolError(f"Gen_{w}: no derivations printed\n" + tlc_error_text(r))
        for b in beh:
            k = json.dumps(b["items"])
            if k not in seen and sum(1 for it in b["items"] if it[0] == "t") >= 2:
                seen.add(k)
                progs.append(b)
    path = os.path.join(WORK, f"programs_{tier}_{'_'.join(which)}.ndjson")
    write_ndjson(path, progs)
    _progs[key] = (path, len(progs))
    log(f"[gen] {len(progs)} distinct programs derived by TLC")
    return _progs[key]


DIRBLOCK_TEXT = {"stmt": "Foo;", "begin": "begin", "while": "while X do begin", "repeat": "repeat", "try": "try", "finally": "finally", "end": "end;", "until": "until Y;",
                 "else": "{$else}", "endif": "{$endif}"}
_dirblocks = {}


def dirblock_programs(c, tier):
    """DirBlocks.tla: routine bodies whose compound statements are split over conditional sections, well-formed under every
    valuation of the symbols (TLC, exhaustive within the bounds); returns the path of a texts file (wf = true)."""
    if tier in _dirblocks:
        return _dirblocks[tier]
    rows = []
    for cfgname in ["DirBlocks.cfg", "DirBlocks_split.cfg"] + Q(tier, [], ["DirBlocks_two.cfg"]):
        r = c.mc("DirBlocks", cfgname, workers=8, timeout=3000) if c else tlc("DirBlocks", cfgname, workers=8, timeout=3000)
        for t, p in r["replay"]:
            words = []
            for it in p["items"]:
                k = it["k"]
                words.append("{$%s %s}" % (k, it["s"]) if k in ("ifdef", "ifndef") else DIRBLOCK_TEXT[k])
            for layout in (0, 1):
                sep = "\n" if layout == 0 else " "
                text = "procedure P;" + sep + "begin" + sep + sep.join(words) + sep + "end;\n"
                rows.append({"text": text, "wf": True, "label": f"dirblocks:{cfgname}:{'unreal' if p['unreal'] else 'real'}:{layout}"})
    if not rows:
        raise ToolError("DirBlocks: no bodies printed")
    import random
    random.Random(SEED).shuffle(rows)
    path = os.path.join(WORK, f"dirblocks_{tier}.ndjson")
    write_ndjson(path, rows)
    _dirblocks[tier] = path
    log(f"[dirblocks] {len(rows)} texts")
    return path


PLAIN = {"mode": 1}
MIXED = {"mode": 2, "tight": True, "blank_lines": True}
COMMENTS = {"mode": 2, "comments": True, "blank_lines": True, "tight": True}
DIRECTIVES = {"mode": 1, "comments": True, "directives": True, "blank_lines": True}
ONELINE = {"mode": 0}
ALLBREAKS = {"mode": 3}
CRLFTABS = {"mode": 4, "blank_lines": True}
CRLFML = {"mode": 4, "comments": True, "crlf_tokens": True, "blank_lines": True}
CRLFML2 = {"mode": 2, "comments": True, "crlf_tokens": True}
CRONLY = {"mode": 5, "comments": True, "cr_comments": True}
CRCOMMENTS = {"mode": 2, "comments": True, "cr_comments": True, "tight": True}
REGIONS = {"mode": 1, "regions": True, "comments": True}
REGIONSF = {"mode": 1, "regions": True, "fixed_regions": True}
REGIONSF2 = {"mode": 1, "regions": True, "regions2": True, "fixed_regions": True, "comments": True}
REGIONS2 = {"mode": 2, "regions": True, "regions2": True}
REGIONS3 = {"mode": 1, "regions": True, "regions2": True, "comments": True}


def program_tasks(tier, cfgs, variants, alts=(), chunks=48, **kw):
    path, n = gen_programs(tier)
    if tier == "thorough":
        variants = list(variants) * 2        # every layout family under two decoration / spacing seeds
    params = {"path": path, "variants": [[SEED * 100 + i, SEED * 1000 + i, v] for i, v in enumerate(variants)], "alts": [[SEED * 7 + i, m] for i, m in enumerate(alts)]}
    total = n * len(variants)
    return split_tasks("programs", params, total, [], cfgs, chunks=chunks, **kw)


def gen_tasks(tier, cfgs, **kw):
    """generated programs in three layouts, for the properties whose corpus is 'well-formed programs'"""
    return program_tasks(tier, cfgs, [PLAIN, COMMENTS, DIRECTIVES], **kw)


def c02(tier):
    build(("release",))
    c = Check("C02", tier, "model_checking")
    comment_mc_and_replay(c, tier)
    mlstring_mc_and_replay(c, tier)
    tasks = program_tasks(tier, Q(tier, "six", "wide"), [PLAIN, MIXED, COMMENTS, DIRECTIVES, ONELINE, ALLBREAKS, CRLFTABS, CRONLY, CRCOMMENTS], cfg_mode="rotate", sample_every=Q(tier, 199, 1999))
    tasks += seed_tasks(Q(tier, "six", "wide"), sample_every=Q(tier, 97, 997))
    c.explore(tasks, "rescan", ["C02", "C13"], sample_cap=Q(tier, 150, 800))
    return c.finish(
        rule="programs derived by TLC from Grammar.tla, rendered in 7 layout families (pretty, random gaps incl. tight, comments in every placement class, whole statements/declarations wrapped in conditional directives, one line, every gap a break, CRLF+tabs) x rotating configurations, and all seeds: "
             "scan(input) and scan(output) must be the same token list up to the documented normalisations. The scanner is the real one, which TLC checks against Lexer.tla on the sampled inputs AND outputs (C13_Agrees) in the same run")


def c05(tier):
    build(("release",))
    c = Check("C05", tier, "model_checking")
    cfgs = [{"begin_style": b, "wrap_column": w, "tab_width": tw, "use_tabs": t, "continuation_indents": ci, "format_multiline_strings": f}
            for (b, w, tw, t, ci, f) in [("auto", 120, 2, False, 2, True), ("always_wrap", 120, 2, False, 2, False), ("auto", 40, 4, False, 1, True), ("always_wrap", 20, 3, False, 2, True),
                                         ("auto", 60, 2, True, 2, False), ("always_wrap", 80, 8, False, 3, True), ("auto", 30, 2, False, 2, False)]]
    tasks = program_tasks(tier, cfgs, [PLAIN, MIXED, COMMENTS, DIRECTIVES, ONELINE, ALLBREAKS], cfg_mode="rotate", sample_every=Q(tier, 499, 4999))
    # one control statement with thousands of statements in its block (the search budget of one line must not be shared)
    tasks += split_tasks("scaled", {"max_k": Q(tier, 40, 60)}, Q(tier, 40, 60) * 18, [], cfgs[:1], chunks=16)
    c.explore(tasks, "marks", ["C05"], sample_cap=Q(tier, 60, 300))
    return c.finish(
        rule="programs derived by TLC from Grammar.tla carry structure marks (statement / declaration member: own line, one unit deeper than the opener's line; closer: own line at the opener's indentation; control-flow begin under always_wrap); "
             "each program x 6 layouts x rotating (begin_style, width, indentation) configurations; the marked tokens are located in the re-scanned output by ordinal. non-trivial = marks whose expectation was evaluated")


def c06(tier):
    build(("release",))
    c = Check("C06", tier, "model_checking")
    tasks = program_tasks(tier, Q(tier, "two", "six"), [PLAIN, COMMENTS, DIRECTIVES, REGIONSF, REGIONSF2], alts=Q(tier, (0, 2, 3), (0, 2, 2, 3, 4, 1)), sample_every=Q(tier, 299, 2999))
    # scaled shapes that carry a second layout (one logical line with thousands of tokens)
    tasks += split_tasks("scaled", {"max_k": Q(tier, 40, 80)}, Q(tier, 40, 80) * 18, [], "default", chunks=16, sample_every=Q(tier, 499, 4999))
    # routines with asm bodies (keywords in any case), two layouts of the code around the instruction lines
    na = Q(tier, 3000, 60000)
    tasks += split_tasks("asm", {"count": na, "seed": SEED + 1}, na, [], "two", chunks=16, sample_every=Q(tier, 499, 4999))
    # probes of the known finding F8 (spacing after a literal is copied from the input)
    probes = os.path.join(WORK, "c06_probes.ndjson")
    write_ndjson(probes, [
        {"text": "x := 'abc' [1];\n", "wf": True, "label": "probe:literal-bracket", "meta": {"prog": {"marks": [], "nplain": 8, "regions": [], "alts": ["x := 'abc'[1];\n"], "decorated": 0}}},
        {"text": "raise E at 1 at 2;\n", "wf": True, "label": "probe:number-word", "meta": {"prog": {"marks": [], "nplain": 7, "regions": [], "alts": ["raise E at 1at 2;\n"], "decorated": 0}}},
    ])
    tasks += texts_tasks(probes, "default", chunks=1, sample_every=1)
    c.explore(tasks, "relayout", ["C06"], sample_cap=Q(tier, 80, 400))
    return c.finish(
        rule="each generated program x decoration (comments, blank-line groups, directives, verbatim regions whose bytes every layout keeps - now and then with a second `off` inside) is rendered with 3-6 further spacings (one line, random gaps incl. zero-width, every gap a break, CRLF+tabs); "
             "IsRelayout (Session.tla) is evaluated by TLC on the scanned pair (same tokens, comment-touching gaps identical, blank-line groups kept) and the outputs must be byte-identical")


def c07(tier):
    build(("release",))
    c = Check("C07", tier, "model_checking")
    tasks = program_tasks(tier, Q(tier, "six", "wide"), [REGIONS, REGIONS2, REGIONS3, REGIONS2] if tier == "quick" else [REGIONS, REGIONS2, REGIONS3, REGIONS2] * 4, cfg_mode="rotate", sample_every=Q(tier, 299, 4999))
    na = Q(tier, 3000, 60000)
    tasks += split_tasks("asm", {"count": na, "seed": SEED}, na, [], "six", chunks=16, cfg_mode="rotate", sample_every=Q(tier, 101, 1999))
    t2, _ = soup_tasks("full", 2, "six", sample_every=Q(tier, 1999, 499))
    tasks += t2 + walk_tasks(Q(tier, 20000, 300000), "six", sample_every=997)
    c.explore(tasks, "regions", ["C07", "C08"], sample_cap=Q(tier, 80, 400))
    # "code outside these regions is still formatted": two layouts whose regions hold the same bytes give the same output
    # (the relation of C06, restricted to programs with regions and routines with asm bodies)
    t3 = program_tasks(tier, Q(tier, "two", "six"), [REGIONSF, REGIONSF2], alts=Q(tier, (0, 2, 3), (0, 2, 3, 4, 1)), cfg_mode="rotate", sample_every=Q(tier, 299, 2999))
    t3 += split_tasks("asm", {"count": na, "seed": SEED + 1}, na, [], "two", chunks=16, sample_every=Q(tier, 499, 4999))
    rows = c.explore(t3, "outside", ["C07", "C06"], sample_cap=Q(tier, 40, 200))
    for r in rows:
        if r.get("t") == "viol" and r.get("prop") == "C06" and "[site:" not in r.get("detail", ""):
            c.add_violation({"prop": "C07", "clause": "outside_depends_on_layout", "detail": "code outside the verbatim regions is not (fully) formatted - two layouts with identical regions give different results: " + r["detail"],
                             "case": r.get("case"), "confirmed_by_tlc": True})
    return c.finish(
        rule="verbatim regions inserted between any two tokens of generated programs (10 off / 6 on spellings incl. multi-line comment toggles with CR / LF / tab separators and near-misses; one or two regions per program, also inside one statement; regions that run to the end of a file without a final line break), toggle comments in token soup and random walks, and routines with asm bodies (22 instruction-line shapes incl. labels, `;` separators, comments, inline conditional directives, asm string literals; LF and CRLF); "
             "the byte string of every region computed by the specification's recogniser (Toggle.tla mirror) from the scanned input must occur in the output, in order, and the set of tokens the formatter treats as verbatim must be exactly the regions plus asm instruction lines; toggle regions that end or start in the middle of an asm instruction line; code outside the regions is formatted: two layouts that keep the regions' bytes give the same output (Session.tla relation relayout)")


def reflow_mc(c):
    """MC of the second pass of the line formatter (Reflow.tla): queue = top-level ancestors of the lines with a rewritten literal."""
    c.mc("MC_Reflow", "MC_Reflow_bug_flag.cfg", expect_violation=True, workers=2, timeout=600)
    c.mc("MC_Reflow", "MC_Reflow_bug_root.cfg", expect_violation=True, workers=2, timeout=600)
    c.mc("MC_Reflow", "MC_Reflow.cfg", workers=4, timeout=900)


def mlstring_mc_and_replay(c, tier):
    """MC of the literal machine (MC_MLString) and replay of every enumerated literal through the real formatter."""
    runs = Q(tier, ["MC_MLString.cfg", "MC_MLString_q5.cfg", "MC_MLString_cr.cfg", "MC_MLString_crlf.cfg"], ["MC_MLString_7.cfg", "MC_MLString_q5.cfg", "MC_MLString_cr.cfg", "MC_MLString_crlf.cfg"])
    c.mc("MC_MLString", "MC_MLString_bug.cfg", expect_violation=True, workers=4, timeout=900)
    for cfgname in runs:
        r = c.mc("MC_MLString", cfgname, workers=8, timeout=3000)
        beh = [p for t, p in r["replay"]]
        bf = os.path.join(WORK, f"{c.prop}_{cfgname}.beh.ndjson")
        mf = os.path.join(WORK, f"{c.prop}_{cfgname}.mismatch.ndjson")
        write_ndjson(bf, beh)
        rr = run([VH, "replay", "mlstring", bf, mf], timeout=3000)
        st = json.loads(rr.stdout.strip().splitlines()[-1])
        c.extra["literals_replayed"] = c.extra.get("literals_replayed", 0) + st["replayed"]
        c.traces_validated += st["replayed"]
        c.evaluations += st["replayed"] * 12
        if beh and len(c.samples) < 3:
            c.samples.append({"literal_behaviour": beh[len(beh) // 3]})
        drift = 0
        for m in read_ndjson(mf):
            if m["t"] == "viol":
                if m["prop"] in (c.prop, "C12") or (c.prop == "C01" and m["prop"] == "C01"):
                    if m["prop"] == c.prop:
                        c.add_violation({"prop": m["prop"], "clause": m["clause"], "detail": m["detail"], "case": {"text": m["text"], "cfg": m.get("cfg"), "label": "MC_MLString literal"}, "confirmed_by_tlc": True})
            else:
                drift += 1
                if len(c.drift) < 5:
                    c.drift.append(m)
        if drift:
            c.notes.append(f"MODEL-DRIFT MLString ({cfgname}): {drift} literals are rewritten differently from the model (no property clause violated)")
            c.extra["model_drift_MLString"] = c.extra.get("model_drift_MLString", 0) + drift


def comment_mc_and_replay(c, tier):
    """MC of the comment / directive normalisations (Comment.tla) and replay of every enumerated token."""
    c.mc("MC_Comment", "MC_Comment_bug.cfg", expect_violation=True, workers=4, timeout=600)
    for name in Q(tier, ["line4", "doc3", "sep", "docsep", "dir5", "pdir4", "cond_directive", "cond_pdirective"], ["line5", "doc3", "sep", "docsep", "dir6", "pdir4", "cond_directive", "cond_pdirective"]):
        r = c.mc("MC_Comment", f"MC_Comment_{name}.cfg", workers=8, timeout=3000)
        beh = [p for t, p in r["replay"]]
        bf = os.path.join(WORK, f"{c.prop}_comment_{name}.beh.ndjson")
        mf = os.path.join(WORK, f"{c.prop}_comment_{name}.mismatch.ndjson")
        write_ndjson(bf, beh)
        rr = run([VH, "replay", "comment", bf, mf], timeout=3000)
        st = json.loads(rr.stdout.strip().splitlines()[-1])
        c.extra["comment_tokens_replayed"] = c.extra.get("comment_tokens_replayed", 0) + st["replayed"]
        c.traces_validated += st["replayed"]
        c.evaluations += st["replayed"] * 2
        drift = 0
        for m in read_ndjson(mf):
            if m["t"] == "viol":
                if m["prop"] == c.prop:
                    c.add_violation({"prop": m["prop"], "clause": m["clause"], "detail": m["detail"], "case": {"text": m["text"], "label": f"MC_Comment_{name}"}, "confirmed_by_tlc": True})
            else:
                drift += 1
                if len(c.drift) < 5:
                    c.drift.append(m)
        if drift:
            c.notes.append(f"MODEL-DRIFT Comment ({name}): {drift} tokens are normalised differently from the model (no property clause violated)")
            c.extra["model_drift_Comment"] = c.extra.get("model_drift_Comment", 0) + drift


def c12(tier):
    build(("release",))
    c = Check("C12", tier, "model_checking")
    mlstring_mc_and_replay(c, tier)
    reflow_mc(c)
    cfgs = [{"format_multiline_strings": f, "line_ending": le, "use_tabs": t, "tab_width": tw, "wrap_column": w}
            for (f, le, t, tw, w) in [(True, "lf", False, 2, 120), (True, "crlf", False, 4, 40), (False, "lf", False, 2, 120), (True, "lf", True, 2, 30), (False, "crlf", True, 2, 60)]]
    tasks = program_tasks(tier, cfgs, [PLAIN, MIXED, CRLFTABS], cfg_mode="rotate", sample_every=Q(tier, 499, 4999))
    tasks += seed_tasks(cfgs, sample_every=Q(tier, 97, 997))
    tasks += split_tasks("scaled", {"max_k": Q(tier, 40, 80)}, Q(tier, 40, 80) * 18, [], cfgs, chunks=16, sample_every=Q(tier, 97, 499))
    tasks += mlshape_tasks(tier, cfgs, cfg_mode="rotate", sample_every=Q(tier, 997, 9973))
    c.explore(tasks, "mlstrings", ["C12"], sample_cap=Q(tier, 80, 400))
    return c.finish(
        rule="multi-line literals in generated programs (3 and 5 quotes, several bodies and indentations, every expression position of the grammar) and in the seeds, under 5 configurations; per literal: value equal and re-indented like the opening quotes' line when it obeys the indentation rule and the option is on, byte-identical otherwise")


# =====================================================================================================  C16 .. C19 (the command line)

def seed_texts(n=200):
    import random
    rows = read_ndjson(os.path.join(VERIF, "seeds", "seeds.ndjson"))
    rows = [r["text"] for r in rows if ";" in r["text"] and r["text"].isascii() and "pasfmt" not in r["text"] and len(r["text"]) < 2000]
    random.Random(SEED).shuffle(rows)
    return rows[:n]


def c16(tier):
    import cli
    build(("release", "cli"))
    c = Check("C16", tier, "model_checking")
    r = c.mc("CliModes", "CliModes.cfg", workers=8, timeout=1800)
    c.mc("CliModes", "CliModes_bug_setlen.cfg", expect_violation=True, workers=4, timeout=600)
    c.mc("CliModes", "CliModes_bug_seek.cfg", expect_violation=True, workers=4, timeout=600)
    seen, scen = set(), []
    for t, p in r["replay"]:
        k = json.dumps([p["mode"], p["form"], p["class"]], sort_keys=True)
        if k not in seen:
            seen.add(k)
            scen.append(p)
    import random
    random.Random(SEED).shuffle(scen)
    # every (mode, form) pair and every class is covered first, then a random remainder
    scen.sort(key=lambda p: 0)
    chosen = scen[:Q(tier, 450, len(scen))]
    texts = seed_texts()
    res = cli.run_scenarios(cli.run_modes_scenario, chosen, texts)
    ran = 0
    for sc, (problems, skipped) in zip(chosen, res):
        if skipped:
            c.extra["skipped_precondition"] = c.extra.get("skipped_precondition", 0) + 1
            continue
        ran += 1
        for p in problems:
            c.add_violation({"prop": "C16", "clause": p["clause"], "detail": p["detail"], "case": {"label": f"{sc['mode']}/{sc['form']}", "scenario": sc}})
    c.evaluations += ran
    c.nontrivial += ran
    c.traces_validated += ran
    c.extra["scenarios_in_model"] = len(scen)
    c.samples.append({"scenario": chosen[0]})
    unenc = [{"label": l, "raw": r} for (l, r) in cli.UNENCODABLE]
    for sc, (problems, skipped) in zip(unenc, cli.run_scenarios(cli.run_unencodable_scenario, unenc, threads=4)):
        c.evaluations += 1
        c.nontrivial += 1
        for p in problems:
            c.add_violation({"prop": "C16", "clause": "failing_untouched" if p["clause"] == "malformed_untouched" else "exit_status" if p["clause"] == "malformed_rejected" else "files_mode_result",
                             "detail": p["detail"], "case": {"label": "unencodable/" + sc["label"]}})
    ran, probs = cli.exit_scenarios(c, tier)
    for sc, p in probs:
        c.add_violation({"prop": "C16", "clause": p["clause"], "detail": p["detail"], "case": {"label": f"exit/{sc['kind']}/{sc['fails']}", "scenario": sc}})
    c.evaluations += ran
    c.nontrivial += ran
    c.traces_validated += ran
    c.extra["exit_status_scenarios"] = ran
    c.exhaustive = tier == "thorough"
    return c.finish(
        rule="CliModes.tla: 3 files x 8 content classes x 3 modes x 5 path forms, every order of the per-file steps (TLC, exhaustive; with NO_SETLEN / NO_SEEK switched on TLC finds the stale-tail and the append bug). "
             "Every final state of the model is a scenario: it is materialised in a scratch directory with concrete contents of each class (checked against the stdin->stdout oracle of the same binary), the real binary is run, and bytes / mtime+inode / exit status / stdout are compared with the model",
        assumptions=["format(content) is what the same binary prints for the content on standard input (as the property defines it)"])


def c19(tier):
    import cli, random
    build(("release", "cli"))
    c = Check("C19", tier, "model_checking")
    r = c.mc("CliConfig", Q(tier, "CliConfig.cfg", "CliConfig_deep.cfg"), workers=8, timeout=3000)
    scen = [p for t, p in r["replay"]]
    rnd = random.Random(SEED)
    rnd.shuffle(scen)
    # stratified: every kind of scenario is represented before the random remainder
    def stratum(p):
        lv = [(l, p["tree"][l]["defect"] == "is_dir") for l in sorted(p["tree"]) if p["tree"][l]["defect"] != "absent"]
        return (p["cfgArg"], tuple(lv), len(p["overrides"]), p["error"], tuple(sorted({o["defect"] for o in p["overrides"]} | {p["tree"][l]["defect"] for l in p["tree"]})))
    def pick(scen, stratum, n):
        by = {}
        for p in scen:
            by.setdefault(stratum(p), []).append(p)
        chosen = []
        while len(chosen) < n and any(by.values()):
            for k in list(by):
                if by[k]:
                    chosen.append(by[k].pop())
        return chosen[:n], len(by)
    chosen, nstrata = pick(scen, stratum, Q(tier, 700, 12000))
    # the second configuration of the model: defaults written out, and a fourth option standing for all the others
    r2 = c.mc("CliConfig", "CliConfig_explicit.cfg", workers=8, timeout=3000)
    scen2 = [p for t, p in r2["replay"]]
    rnd.shuffle(scen2)
    TOP = cli.TOP
    def cls(o, i):
        return 0 if i == 0 else (2 if i == TOP[o] else 1)
    def stratum2(p):
        # per option: what the file that is read says and what the last -C says (not set / a value / the default written out)
        lv = [l for l in sorted(p["tree"]) if p["tree"][l]["defect"] != "absent"]
        near = p["argSource"] if p["cfgArg"] == "file" else (p["tree"][lv[-1]] if lv else None)
        sig = []
        for o in ("wrap_column", "begin_style", "use_tabs", "other"):
            last = 0
            for ov in p["overrides"]:
                if ov[o]:
                    last = ov[o]
            sig.append((cls(o, near[o]) if near and near["defect"] == "none" else 0, cls(o, last)))
        return (p["cfgArg"], len(lv), tuple(sig))
    chosen2, nstrata2 = pick(scen2, stratum2, Q(tier, 600, 8000))
    c.extra["scenarios_in_model_(explicit defaults)"] = len(scen2)
    c.extra["strata_(explicit defaults)"] = nstrata2
    by = range(nstrata)
    chosen = chosen + chosen2
    res = cli.run_scenarios(cli.run_config_scenario, chosen)
    for sc, (problems, skipped) in zip(chosen, res):
        for p in problems:
            c.add_violation({"prop": "C19", "clause": p["clause"], "detail": p["detail"], "case": {"label": f"cfg/{sc['cfgArg']}", "scenario": sc}})
    c.evaluations += len(chosen)
    c.nontrivial += len(chosen)
    c.traces_validated += len(chosen)
    c.extra["scenarios_in_model"] = len(scen)
    c.extra["strata"] = len(by)
    c.samples.append({"scenario": chosen[0]})
    return c.finish(
        rule="CliConfig.tla, two configurations (defects; defaults written out + a fourth option that stands for each of the remaining options in turn): directory chains of depth 2 (thorough 3), at most two pasfmt.toml files anywhere on the chain holding one or two settings or a defect (unknown key / ill-typed value in 28 spellings / value the configuration library converts instead of rejecting / number outside the option's domain) or being a DIRECTORY of that name (which does not end the search), --config-file in {absent, file, missing, directory}, up to two -C options (valid, duplicate keys, defects); "
             "every final state is a scenario, stratified by (config-file kind, levels holding a file, number of overrides, error) and materialised: the run must fail without touching the probe file iff the model says error, otherwise the probe's bytes must equal the result of the same effective configuration given entirely by -C in an empty tree")


def c17(tier):
    import cli, random
    build(("release", "cli"))
    c = Check("C17", tier, "model_checking")
    r = c.mc("CliEnc", "CliEnc.cfg", workers=4, timeout=900)
    scen = [p for t, p in r["replay"]]
    res = cli.run_scenarios(cli.run_enc_scenario, scen)
    for sc, (problems, skipped) in zip(scen, res):
        for p in problems:
            c.add_violation({"prop": "C17", "clause": p["clause"], "detail": p["detail"], "case": {"label": f"{sc['stored']}/{sc['option']}/{sc['damage']}", "scenario": sc}})
    c.evaluations += len(scen)
    c.nontrivial += len(scen)
    c.traces_validated += len(scen)
    # longer texts in every supported family of encodings (codec tables are a trusted base here)
    rnd = random.Random(SEED)
    texts = seed_texts(Q(tier, 60, 600))
    legacy = []
    for i, t in enumerate(texts):
        for (label, codec, bom) in cli.LEGACY:
            w = cli.SAMPLE_WORDS.get(codec, "x") if (i // 2) % 2 == 0 else cli.ALT_WORDS.get(codec, cli.SAMPLE_WORDS.get(codec, "x"))
            words = w.split()
            body = t + f"\n// {w}\nS := '{words[0]}';\n" + (f"{words[0]}x := 1;\n" if words[0].isidentifier() else "")
            if (i + len(label)) % 4 == 0:
                # large files: every size class of the internal buffers (16 KiB, 64 KiB, 256 KiB) is crossed with multi-byte text around
                body = "\n".join(f"// {w} {k} {w * (1 + k % 3)}\nS{k} := '{words[0]}{k}';" for k in range(rnd.choice([300, 1200, 5000]))) + "\n" + body
            sc = {"label": label, "codec": codec, "bom": list(bom), "text": body}
            if bom and i % 3 == 0:
                sc["option"] = rnd.choice(["utf-8", "windows-1252", "shift_jis"])      # a BOM overrides the option
            legacy.append(sc)
    rnd.shuffle(legacy)
    legacy = legacy[:Q(tier, 400, 6000)]
    res = cli.run_scenarios(cli.run_legacy_scenario, legacy)
    ran = 0
    for sc, (problems, skipped) in zip(legacy, res):
        if skipped:
            c.extra["skipped_precondition"] = c.extra.get("skipped_precondition", 0) + 1
            continue
        ran += 1
        for p in problems:
            c.add_violation({"prop": "C17", "clause": p["clause"], "detail": p["detail"], "case": {"label": sc["label"], "text": sc["text"]}})
    c.evaluations += ran
    c.nontrivial += ran
    # two or three files of one encoding in one invocation on one worker (long first), and results that cannot be encoded
    pairs = []
    for i, t in enumerate(texts[:Q(tier, 12, 120)]):
        label, codec, bom = cli.LEGACY[i % len(cli.LEGACY)]
        w = cli.SAMPLE_WORDS.get(codec, "x")
        pairs.append({"label": label, "codec": codec, "bom": list(bom), "long": "\n".join(f"// {w} {k}\nS{k} := '{w}';" for k in range(60)) + "\n" + t, "short": f"x:='{w.split()[0]}';\n"})
    res = cli.run_scenarios(cli.run_pair_scenario, pairs, threads=6)
    for sc, (problems, skipped) in zip(pairs, res):
        if skipped:
            continue
        c.evaluations += 1
        c.nontrivial += 1
        for p in problems:
            c.add_violation({"prop": "C17", "clause": p["clause"], "detail": p["detail"], "case": {"label": "pair/" + sc["label"]}})
    # malformed files between well-formed ones in one invocation: rejection of one file must not reach into the next
    rb = [{"n": n, "bad": bad, "threads": th, "seed": SEED * 100 + k} for k, (n, bad, th) in enumerate(
        [(32, [0], 1), (32, [3, 4], 1), (24, [0, 23], 1), (40, [7], 2), (16, [1], 1), (32, [15, 16, 17], 1)] + Q(tier, [], [(64, [0, 9, 31], 1), (64, [5], 3), (128, [2, 64], 2), (32, [31], 1)]))]
    res = cli.run_scenarios(cli.run_reject_batch_scenario, rb, threads=3)
    for sc, (problems, skipped) in zip(rb, res):
        if skipped:
            continue
        c.evaluations += sc["n"]
        c.nontrivial += sc["n"]
        for p in problems:
            c.add_violation({"prop": "C17", "clause": p["clause"], "detail": p["detail"], "case": {"label": f"reject-batch n={sc['n']} bad={sc['bad']}"}})
    unenc = [{"label": l, "raw": r} for (l, r) in cli.UNENCODABLE]
    res = cli.run_scenarios(cli.run_unencodable_scenario, unenc, threads=4)
    for sc, (problems, skipped) in zip(unenc, res):
        c.evaluations += 1
        c.nontrivial += 1
        for p in problems:
            c.add_violation({"prop": "C17", "clause": p["clause"], "detail": p["detail"], "case": {"label": "unencodable/" + sc["label"]}})
    c.samples.append({"scenario": scen[len(scen) // 2]})
    c.exhaustive = True
    return c.finish(
        rule="CliEnc.tla defines UTF-8 and UTF-16 (LE/BE, surrogate pairs) from their specifications and enumerates texts of <= 2 characters from {a, e-acute, euro, U+3000, an astral emoji} x 7 stored forms (with / without BOM) x 4 `encoding` options (a BOM must win) x damages (odd-length UTF-16, lone surrogate, invalid UTF-8 byte): "
             "every scenario's input bytes and expected output bytes come from the model and are compared with the file written by the real binary and with its piped stdin->stdout; a text that itself begins with U+FEFF after the real BOM keeps it; plus seed programs with non-ASCII comments / strings / identifiers in 21 encodings incl. legacy code pages, CJK multi-byte encodings and the stateful ISO-2022-JP, a quarter of them 20..400 KiB large (expected = BOM + encode(format(decode)); the written file must be accepted by --mode=check; the piped path must give the same bytes, also when the producer delivers the BOM byte by byte); several files of one encoding in one invocation on one worker (long first); malformed files between well-formed ones of four encodings in one invocation on one or two workers; words that are longer in the legacy encoding than in UTF-8; bytes that decode to a character the encoding cannot encode again (the file stays untouched when the run fails)",
        assumptions=["for legacy code pages the codec tables of Python / encoding_rs are trusted; the code under test is pasfmt's use of them"])


def c18(tier):
    import cli, random
    build(("release", "cli"))
    c = Check("C18", tier, "model_checking")
    for cfg in ["CliWorkers.cfg", "CliWorkers_fail.cfg"] + (["CliWorkers_4x3.cfg"] if True else []):
        c.mc("CliWorkers", cfg, workers=8, timeout=1800)
    c.mc("CliWorkers", "CliWorkers_bug_noclear.cfg", expect_violation=True, workers=4, timeout=600)
    rnd = random.Random(SEED)
    texts = seed_texts(300)
    scen = []
    for i in range(Q(tier, 70, 1500)):
        threads = [1, 2, 3, 8, 16][i % 5]
        n = rnd.choice([2, 3, 5, 8, 13, 40]) if tier == "quick" else rnd.choice([2, 3, 5, 8, 13, 40, 200])
        fail = rnd.choice([[], [], ["undecodable"], ["missing"], ["undecodable", "missing"], ["ok", "undecodable"]])
        scen.append({"n": n, "threads": threads, "fail": fail[:n], "seed": SEED * 100003 + i, "explicit": i % 3 != 0 or "missing" in fail})
        if i % 4 == 1:
            scen[-1]["mode"] = "stdout"
            scen[-1]["n"] = max(n, 13)
        if i % 7 == 3 and threads == 1:
            scen[-1]["big"] = [300 * 1024, 1300 * 1024, 5 * 1024 * 1024][(i // 7) % (2 if tier == "quick" else 3)]
            scen[-1]["n"] = max(scen[-1]["n"], 16)
            scen[-1]["explicit"] = True
        if i % 6 == 0 and "mode" not in scen[-1] and "missing" not in fail:
            scen[-1]["explicit"] = False
            scen[-1]["extra"] = "missing" if i % 12 == 0 else "inc"
        if i % 5 == 2:
            scen[-1]["loglevel"] = ["OFF", "ERROR", "DEBUG"][(i // 5) % 3]
        if i % 9 == 4 and "mode" not in scen[-1]:
            scen[-1]["badglob"] = ["***", "src/**.pas", "[a"][(i // 9) % 3]
            scen[-1]["explicit"] = True
        if i % 11 == 7 and "mode" not in scen[-1] and "missing" not in fail and "badglob" not in scen[-1]:
            scen[-1]["fd_limit"] = 48
            scen[-1]["n"] = max(scen[-1]["n"], 120)
            scen[-1]["explicit"] = False
        # every other batch under a non-default configuration (the same one for the solo runs)
        if i % 2 == 1:
            scen[-1]["cfg"] = [{"format_multiline_strings": "false"}, {"wrap_column": 40, "begin_style": "always_wrap"}, {"format_multiline_strings": "false", "wrap_column": 30},
                               {"line_ending": "crlf", "use_tabs": "true"}][(i // 2) % 4]
    res = cli.run_scenarios(lambda i, sc: cli.run_batch_scenario(i, sc, texts), scen, threads=4)
    all_events = []
    ran = 0
    for sc, (problems, skipped, events) in zip(scen, res):
        if skipped:
            c.extra["skipped_precondition"] = c.extra.get("skipped_precondition", 0) + 1
            continue
        ran += 1
        for p in problems:
            c.add_violation({"prop": "C18", "clause": p["clause"], "detail": p["detail"], "case": {"label": f"batch n={sc['n']} threads={sc['threads']}", "scenario": sc}})
        all_events.append({"ev": "Reset"})
        all_events += events
    c.evaluations += ran
    c.nontrivial += ran
    # implementation -> spec: the recorded worker events must be a behaviour of CliWorkers (TraceWorkers.tla)
    trace = os.path.join(WORK, "C18_workers.trace.ndjson")
    write_ndjson(trace, all_events)
    r = tlc("TraceWorkers", "TraceWorkers.cfg", workers=1, timeout=1800, name="C18_trace", coverage=False,
            env={"TRACE": trace, "JAVA_TOOL_OPTIONS": "-Dtlc2.tool.queue.IStateQueue=StateDeque"}, jvm=["-Xmx6g", "-Xss256m"])
    if "REJECTED" in r["stdout"] or not r["ok"]:
        c.tool_errors.append("worker trace rejected by TraceWorkers:\n" + tlc_error_text(r, 25))
    else:
        c.traces_validated += ran
        c.states += r["states"]
        c.transitions += r["transitions"]
        reused = sum(1 for t, p in r["prints"] if t == "REUSED")
        c.extra["events_validated"] = len(all_events)
        c.extra["files_read_into_a_reused_buffer"] = reused
        if reused == 0:
            c.tool_errors.append("vacuous: no worker ever reused its buffer in the recorded batches")
        for t, p in r["prints"]:
            if t == "VIOL":
                c.add_violation({"prop": "C18", "clause": p["clause"], "detail": json.dumps(p), "case": {"label": "worker trace"}, "confirmed_by_tlc": True})
            elif t == "DRIFT":
                c.drift.append(p)
        if c.drift:
            c.extra["model_drift"] = c.drift[:5]
    c.samples.append({"scenario": scen[0], "events": all_events[1:4]})
    # write faults: results beyond a file-size limit cannot be written
    wf = [{"threads": [1, 2, 8][i % 3], "seed": SEED * 7 + i} for i in range(Q(tier, 6, 60))]
    for sc, (problems, skipped) in zip(wf, cli.run_scenarios(lambda i, sc: cli.run_write_fault_scenario(i, sc, texts), wf, threads=3)):
        if skipped:
            continue
        c.evaluations += 1
        c.nontrivial += 1
        c.extra["write_fault_scenarios"] = c.extra.get("write_fault_scenarios", 0) + 1
        for p in problems:
            c.add_violation({"prop": "C18", "clause": p["clause"], "detail": p["detail"], "case": {"label": "write-fault", "scenario": sc}})
    ran, probs = cli.exit_scenarios(c, tier)
    for sc, p in probs:
        c.add_violation({"prop": "C18", "clause": p["clause"], "detail": p["detail"], "case": {"label": f"exit/{sc['kind']}/{sc['fails']}", "scenario": sc}})
    c.evaluations += ran
    c.nontrivial += ran
    c.traces_validated += ran
    c.extra["exit_status_scenarios"] = ran
    return c.finish(
        rule="CliWorkers.tla: every interleaving of 2 workers x 3 files and 3 workers x 4 files with failing subsets (TLC, exhaustive; with NO_CLEAR the long-then-short stale-buffer counterexample is found). "
             "Real batches (2..40 files, thorough ..200; mixed sizes, encodings, empty, undecodable and missing files; 1,2,3,8,16 threads; directory and shuffled explicit paths): every file must equal its solo result, exit status <=> some file failed; "
             "half of the batches under a non-default configuration (string formatting off, narrow widths, CRLF + tabs), every third file sharing a long prefix with its neighbour; a quarter of the batches run in stdout mode with outputs of up to several hundred KiB: the output must be the blocks `path:<LF>text<LF>` of the good files in some order, each in one piece; "
             "a directory argument followed by explicit paths inside it (a file with another extension, a missing one); batches in which some results cannot be written (file-size limit): status non-zero, the others as when formatted alone; CliExit.tla: the status for 0..512 (thorough ..65536) failing paths of each kind; "
             "the worker events recorded by the hook (buffer length before clear / after read, file length, write sequence) are validated by TLC against the model",
        assumptions=["rayon's real schedules are sampled, not enumerated; all schedules are enumerated on the model only"])
