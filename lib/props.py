"""Per-property plans: which models are checked, which behaviours are replayed, which suites are explored."""
import json, os, sys, time
from common import *
from engine import Check

Q = lambda tier, q, t: q if tier == "quick" else t

_alpha = None


def alphabets():
    """The soup alphabets, as declared in spec/Soup.tla (TLC prints them)."""
    global _alpha
    if _alpha is None:
        r = tlc("Soup", "Soup.cfg", workers=1, timeout=120, jvm=["-Xmx1g"])
        a = [p for t, p in r["prints"] if t == "ALPHABET"]
        if not a:
            raise ToolError("Soup.tla did not print its alphabets:\n" + tlc_error_text(r))
        tx = lambda seqs: ["".join(chr(c) for c in s) for s in seqs]
        _alpha = {"struct": tx(a[0]["struct"]), "full": tx(a[0]["full"]), "seps": tx(a[0]["seps"])}
    return _alpha


def soup_tasks(which, length, cfgs, chunks=128, **kw):
    al = alphabets()
    params = {"alphabet": al[which], "len": length, "seps": al["seps"]}
    n = len(al[which]) ** length * len(al["seps"])
    return split_tasks("soup", params, n, [], cfgs, chunks=chunks, cfg_mode="rotate", **kw), n


def walk_tasks(count, cfgs, chunks=32, min_len=4, max_len=40, **kw):
    al = alphabets()
    params = {"alphabet": al["full"], "count": count, "seed": SEED, "min_len": min_len, "max_len": max_len}
    return split_tasks("walk", params, count, [], cfgs, chunks=chunks, cfg_mode="rotate", **kw)


def seed_tasks(cfgs, chunks=32, **kw):
    n = suite_len("seeds", {})
    return split_tasks("seeds", {}, n, [], cfgs, chunks=chunks, wrap_hint=True, **kw)


def trunc_tasks(cfgs, stride, chunks=64, **kw):
    params = {"stride": stride}
    n = suite_len("truncations", params)
    return split_tasks("truncations", params, n, [], cfgs, chunks=chunks, cfg_mode="rotate", wrap_hint=True, **kw)


def splice_tasks(count, cfgs, chunks=32, **kw):
    params = {"count": count, "seed": SEED}
    return split_tasks("splices", params, count, [], cfgs, chunks=chunks, cfg_mode="rotate", **kw)


def texts_tasks(path, cfgs, chunks=16, **kw):
    params = {"path": path}
    n = suite_len("texts", params)
    return split_tasks("texts", params, n, [], cfgs, chunks=chunks, **kw)


def replay(prop, path):
    """Re-run the case of a replay file against the current tree and print what the property's monitor says."""
    build(("release",))
    v = json.load(open(path))
    case = v.get("case") or {}
    tf = os.path.join(WORK, "replay.texts.ndjson")
    write_ndjson(tf, [{"text": case.get("text", ""), "wf": case.get("wf", False), "label": case.get("label", "replay"), "meta": case.get("meta")}])
    c = Check(prop, "quick", "exploration")
    cfg = case.get("cfg") or {}
    tasks = texts_tasks(tf, [cfg] if cfg else "default", chunks=1, sample_every=1)
    c.explore(tasks, "replay", [prop, "C04"] if prop != "C04" else ["C04"])
    for x in c.violations:
        print(f"VIOLATION property={prop} replay={path}")
        log(f"   {x.get('clause')}: {x.get('detail')}")
    return 1 if c.violations else 0


# =====================================================================================================  C13

LEXER_MC = {"quick": ["gen3", "str5", "num4", "dir4", "asm4", "word4"],
            "thorough": ["gen3", "gen4", "str5", "str7", "num5", "dir6", "asm6", "word5"]}


def lexer_mc_and_replay(c, tier, limit_replay=None):
    """MC of the scanner machine and replay of every enumerated behaviour into the real scanner (exact agreement)."""
    total_beh = 0
    for name in LEXER_MC[tier]:
        r = c.mc("MC_Lexer", f"MC_Lexer_{name}.cfg", workers=8, timeout=3000)
        beh = [p for t, p in r["replay"]]
        if not beh:
            c.tool_errors.append(f"MC_Lexer_{name}: no behaviours printed")
            continue
        bf = os.path.join(WORK, f"lex_{name}.beh.ndjson")
        mf = os.path.join(WORK, f"lex_{name}.mismatch.ndjson")
        write_ndjson(bf, beh)
        rr = run([VH, "replay", "lex", bf, mf], timeout=1800)
        st = json.loads(rr.stdout.strip().splitlines()[-1])
        total_beh += st["replayed"]
        if len(c.samples) < 4:
            c.samples.append({"spec_behaviour": beh[len(beh) // 2]})
        for m in read_ndjson(mf)[:50]:
            c.add_violation({"prop": "C13", "clause": "agrees_with_lexical_rules",
                             "detail": f"spec tokens {json.dumps(m['spec'])} vs scanner {json.dumps(m['impl'])}",
                             "case": {"text": m["text"], "label": f"MC_Lexer_{name}", "cfg": None}, "confirmed_by_tlc": True})
        if st["mismatches"]:
            c.extra["violations_total"] = c.extra.get("violations_total", 0) + max(0, st["mismatches"] - 50)
    c.extra["spec_behaviours_replayed"] = total_beh
    c.traces_validated += 0
    return total_beh


def grid_params(tier):
    lens_q = list(range(1, 41)) + [63, 64, 65, 66, 95, 96, 97, 98, 127, 128, 129, 130, 200]
    return {
        "kinds": ["ident", "ident_", "uident", "keyword", "kwsuffix", "decimal", "hex", "binary"],
        "lens": Q(tier, lens_q, list(range(1, 201))),
        "rems": Q(tier, [0, 1, 5, 30, 31, 32, 33, 64], [0, 1, 2, 5, 30, 31, 32, 33, 34, 63, 64, 65]),
        "offsets": Q(tier, [0, 1, 7, 31, 32, 33, 64], list(range(0, 65))),
        "delims": [" ", "\n", "　", ";", "(", ".", "+", "'", "{", "!", "é", "\U0001F603", "\x7f", "\x00", ":", "e", "_", "9"],
        "tails": ["spaces", "code", "nonascii"],
    }


def c13(tier):
    build(("release",))
    c = Check("C13", tier, "model_checking")
    nbeh = lexer_mc_and_replay(c, tier)
    # implementation -> spec: real token lists of long inputs; lossless clauses on everything, agreement with the
    # specification's scanner decided by TLC on the sampled sessions, the grid carries its own expectations
    props = ["C13"]
    gp = grid_params(tier)
    n = suite_len("grid", gp)
    tasks = split_tasks("grid", gp, n, props, "default", chunks=128, sample_every=Q(tier, 4001, 20011))
    c.explore(tasks, "grid", props, sample_cap=Q(tier, 120, 600))
    tasks = seed_tasks("default", sample_every=Q(tier, 7, 3))
    tasks += splice_tasks(Q(tier, 3000, 100000), "default", sample_every=Q(tier, 97, 997))
    tasks += walk_tasks(Q(tier, 20000, 1000000), "default", sample_every=Q(tier, 197, 9973))
    t2, _ = soup_tasks("full", 2, "default", sample_every=Q(tier, 211, 101))
    c.explore(tasks + t2, "corpus", props, sample_cap=Q(tier, 400, 2500))
    c.exhaustive = True
    return c.finish(
        rule="(1) every text of <= N code points over the alphabets of MC_Lexer_*.cfg is scanned by the specification (TLC, exhaustive) and the same text by the real scanner: token lists must be equal; "
             "(2) grid cells (word kind x length x bytes remaining x offset x delimiter x tail) with the generator's own expectation for the word's boundaries/kind and the three identifier routines (generic, avx2, dispatched); "
             "(3) seeds, splices, soup and random walks: lossless clauses on every input, and agreement with Lexer.tla decided by TLC on the sampled ones. "
             "distinct_nontrivial counts inputs on which a C13 clause was evaluated.",
        assumptions=["the CPU of this machine selects the AVX2 routine; the generic routine is driven directly through the hook",
                     "code points, not bytes, are the unit of the specification; char-boundary safety is the harness's slicing (a panic would be reported)"])


# =====================================================================================================  C04

def c04(tier):
    build(("release", "checked"))
    c = Check("C04", tier, "model_checking")
    props = ["C04", "C15"]       # cursor lists are part of C04's quantifier; C15 makes the harness pass them
    for vh, label in ((VH, "release"), (VH_CHECKED, "checked")):
        tasks, n2 = soup_tasks("full", 2, "six")
        t3, n3 = soup_tasks("struct", 3, "six")
        tasks += t3
        if tier == "thorough":
            t, _ = soup_tasks("full", 3, "six", chunks=512)
            tasks += t
            if label == "release":
                t, _ = soup_tasks("struct", 4, "six", chunks=512)
                tasks += t
        tasks += trunc_tasks("six", Q(tier, 7, 1))
        tasks += splice_tasks(Q(tier, 4000, 60000), "six")
        tasks += walk_tasks(Q(tier, 20000, 300000), "six")
        tasks += seed_tasks("wide" if tier == "thorough" else "six")
        c.explore(tasks, f"soup_{label}", props, vh=vh, timeout_ms=Q(tier, 2000, 10000), sample_cap=Q(tier, 60, 300))
    c.exhaustive = True
    return c.finish(
        rule="every sequence of <= 2 tokens over the full alphabet of Soup.tla and <= 3 over the structural one (thorough: 3 / 4), x 2 separators, "
             "seeds truncated at token boundaries, spliced seeds, random soup walks, each under rotating configurations and with a cursor list; "
             "run in worker processes with a watchdog, in a release build and in a build with overflow checks and debug assertions. "
             "non-trivial = the call returned (no abort, no hang)",
        assumptions=["a hang is a call that makes no progress for the watchdog period (2 s quick / 10 s thorough) on inputs of < 2 kB"])


# =====================================================================================================  C01 / C08 / C14

def basic_corpus(tier, cfgs_soup="six", sample=True):
    s = (lambda q, t: Q(tier, q, t)) if sample else (lambda q, t: 0)
    tasks, _ = soup_tasks("full", 2, cfgs_soup, sample_every=s(997, 499))
    t3, _ = soup_tasks("struct", 3, cfgs_soup, sample_every=s(9973, 4999))
    tasks += t3
    if tier == "thorough":
        t, _ = soup_tasks("full", 3, cfgs_soup, chunks=512, sample_every=s(0, 99991))
        tasks += t
    tasks += trunc_tasks(cfgs_soup, Q(tier, 5, 1), sample_every=s(499, 997))
    tasks += splice_tasks(Q(tier, 4000, 60000), cfgs_soup, sample_every=s(199, 997))
    tasks += walk_tasks(Q(tier, 20000, 300000), cfgs_soup, sample_every=s(997, 4999))
    tasks += seed_tasks("wide" if tier == "thorough" else "six", sample_every=s(41, 97))
    return tasks


def c01(tier):
    build(("release",))
    c = Check("C01", tier, "model_checking")
    c.explore(basic_corpus(tier), "corpus", ["C01"], sample_cap=Q(tier, 250, 1500))
    return c.finish(
        rule="token soup (exhaustive to length 2 over the full alphabet, 3 over the structural one; thorough 3 full), truncated and spliced seeds, random walks, seeds; rotating configurations. "
             "The non-blank sequence of input and output is compared on every call; TLC re-decides C01 (Props.tla) on the sampled and on all flagged sessions.")


def c08(tier):
    build(("release",))
    c = Check("C08", tier, "model_checking")
    c.explore(basic_corpus(tier), "corpus", ["C08"], sample_cap=Q(tier, 250, 1500))
    return c.finish(
        rule="as C01; the whitespace predicates of Props.tla (WhitespaceViolations) are evaluated on the final token table of every call; the end-of-file clause on well-formed inputs (seeds) only")


def c14(tier):
    build(("release",))
    c = Check("C14", tier, "model_checking")
    c.explore(basic_corpus(tier, cfgs_soup="default"), "corpus", ["C14"], sample_cap=Q(tier, 250, 1500))
    return c.finish(
        rule="as C01 (one configuration: parsing does not depend on it); C14_Violations of Props.tla on the public parser's result; parent / Eof clauses on well-formed inputs (seeds)")


# =====================================================================================================  C03 / C09 / C10 / C11 / C15
# (well-formed corpus: the repository's seeds; grammar-generated programs are added by gen_tasks once Gen.tla exists)

def wf_corpus(tier, cfgs, sample_q=23, sample_t=211, **kw):
    tasks = seed_tasks(cfgs, sample_every=Q(tier, sample_q, sample_t), **kw)
    try:
        tasks += gen_tasks(tier, cfgs, sample_every=Q(tier, sample_q * 4, sample_t * 4))
    except NameError:
        pass
    return tasks


def c03(tier):
    build(("release",))
    c = Check("C03", tier, "exploration")
    c.explore(wf_corpus(tier, Q(tier, "six", "wide")), "wf", ["C03"], sample_cap=Q(tier, 150, 800))
    return c.finish(
        rule="every seed program (both sides of each data test) and every grammar-generated program is formatted, and the result formatted again with the same configuration (6 / 18 configurations, the first one at the seed's own narrow width); "
             "Session.tla's `idem` relation (precondition b.in = a.out, same configuration) is re-decided by TLC on sampled and flagged histories. non-trivial = histories whose first call returned")


def c09(tier):
    build(("release",))
    c = Check("C09", tier, "model_checking")
    tasks = wf_corpus(tier, Q(tier, "six", "wide"))
    t2, _ = soup_tasks("full", 2, "six", sample_every=Q(tier, 1999, 499))
    tasks += t2 + splice_tasks(Q(tier, 2000, 30000), "six", sample_every=Q(tier, 199, 997)) + walk_tasks(Q(tier, 5000, 100000), "six", sample_every=997)
    c.explore(tasks, "le", ["C09"], sample_cap=Q(tier, 150, 800))
    return c.finish(
        rule="each input is formatted under lf and crlf (relation lecfg: results equal up to the terminator) and, when it has no CR and no verbatim line-spanning token, as LF and as CRLF text (relation lein: results identical); "
             "every emitted break (between tokens, inside re-indented strings) must be the configured one")


def c10(tier):
    build(("release",))
    c = Check("C10", tier, "model_checking")
    grid = [0, 1, 2, 3, 4, 8, 16, 127, 128, 255]
    cfgs = []
    import random
    rnd = random.Random(SEED)
    pairs = [(a, b) for a in grid for b in grid]
    if tier == "thorough":
        pairs += [(rnd.randrange(256), rnd.randrange(256)) for _ in range(400)]
    for tw, ci in pairs:
        cfgs.append({"tab_width": tw, "continuation_indents": ci, "wrap_column": 4294967295})
    tasks = seed_tasks(cfgs, cfg_mode="rotate", sample_every=Q(tier, 29, 97))
    if tier == "thorough":
        tasks += seed_tasks(cfgs[:100], sample_every=9973)
    try:
        tasks += gen_tasks(tier, cfgs, cfg_mode="rotate", sample_every=Q(tier, 97, 997))
    except NameError:
        pass
    c.explore(tasks, "tabs", ["C10"], sample_cap=Q(tier, 150, 800))
    return c.finish(
        rule="seeds and generated programs, wrap_column = 2^32-1, (tab_width, continuation_indents) over {0,1,2,3,4,8,16,127,128,255}^2 (thorough: + 400 random pairs, and the full product on the first 100 pairs): "
             "use_tabs result with leading tabs expanded = use_tabs=false result (relation tabs), and every line's indentation = (levels + ci*continuations) units on the final table of both runs")


def c11(tier):
    build(("release",))
    c = Check("C11", tier, "exploration")
    c.explore(wf_corpus(tier, Q(tier, "two", "six"), sample_q=41, sample_t=211), "width", ["C11"], sample_cap=Q(tier, 60, 300))
    return c.finish(
        rule="seeds and generated programs formatted at widths {10,20,40,80,120,200} plus the critical widths around the line lengths of their own output; every pair W1 < W2 is a `width` relation of Session.tla (three clauses)")


def c15(tier):
    build(("release", "checked"))
    c = Check("C15", tier, "model_checking")
    for vh, label in ((VH, "release"), (VH_CHECKED, "checked")):
        tasks = wf_corpus(tier, Q(tier, "two", "six"), sample_q=37, sample_t=211)
        t2, _ = soup_tasks("full", 2, "six", sample_every=Q(tier, 1999, 997))
        tasks += t2 + trunc_tasks("six", Q(tier, 11, 2), sample_every=997) + walk_tasks(Q(tier, 5000, 100000), "six", sample_every=997)
        c.explore(tasks, f"cursors_{label}", ["C15"], vh=vh, sample_cap=Q(tier, 100, 500))
    return c.finish(
        rule="for every input a cursor list (every token start and end, offsets inside blanks and inside multi-line tokens, 0, end, end+1, end+7, 2^32-1; at most 400 per input) is tracked; "
             "clauses: text unchanged (relation cursor), within output on a character boundary, same offset inside an unchanged token, beyond the end -> end")
