"""The generic engine of a check: model checking jobs, spec->impl replays, exploration through the harness pool with
TLC re-deciding flagged and sampled sessions, known findings, evidence, exit status."""
import json, os, sys, time, collections, random
from common import *


def Q_TIMEOUT(tier):
    return 1800 if tier == "quick" else 7200


class Check:
    def __init__(self, prop, tier, level):
        self.prop, self.tier, self.level = prop, tier, level
        self.t0 = time.time()
        self.states = 0
        self.transitions = 0
        self.traces_validated = 0
        self.evaluations = 0
        self.nontrivial = 0
        self.samples = []
        self.notes = []
        self.violations = []        # dicts: clause, detail, case...
        self.known_hits = collections.Counter()
        self.tool_errors = []
        self.mc_runs = []
        self.drift = []
        self.exhaustive = False
        self.extra = {}
        self.known = load_known()
        self.known_list = []
        self.known_what = {}

    # ------------------------------------------------------------------ model checking
    def mc(self, module, cfg, expect_violation=False, workers=8, timeout=900, name=None, simulate=None, depth=None, env=None):
        log(f"[{self.prop}] TLC {module} {cfg}")
        if self.tier == "thorough":
            timeout *= 5          # the thorough configurations are run to completion, also on a busy machine
        r = tlc(module, cfg, workers=workers, timeout=timeout, name=name, simulate=simulate, depth=depth, env=env)
        self.mc_runs.append({"module": module, "cfg": cfg, "states": r["states"], "transitions": r["transitions"],
                             "wall_s": round(r["wall_s"], 1), "violation_found": r["violation"], "coverage": r["coverage"]})
        if expect_violation:
            # a bug-constant instance: TLC must find the bug (non-vacuity of the invariant)
            if not r["violation"]:
                self.tool_errors.append(f"non-vacuity: {module}/{cfg} was expected to violate its invariant but did not")
            return r
        self.states += r["states"]
        self.transitions += r["transitions"]
        if r["violation"]:
            self.tool_errors.append(f"model {module}/{cfg}: TLC reports a design-level violation (to be replayed on the code):\n" + tlc_error_text(r, 30))
        elif not r["ok"]:
            self.tool_errors.append(f"TLC failed on {module}/{cfg}:\n" + tlc_error_text(r, 30))
        zero = [a for a, n in r["coverage"].items() if n == 0]
        if zero:
            self.notes.append(f"{module}/{cfg}: actions never taken: {zero}")
        return r

    # ------------------------------------------------------------------ exploration through the pool
    def explore(self, tasks, name, props, timeout_ms=2000, vh=None, confirm_cap=40, sample_cap=150, well_known_c04=True):
        """Run tasks; collect violations of self.prop (and hangs / crashes / panics when self.prop == C04)."""
        for t in tasks:
            t["props"] = props
        # (the result file can hold tens of gigabytes of recorded sessions at the thorough tier - outputs indented by 65 025
        # columns per level: it is read row by row, and of the sessions only those that TLC can be given are kept)
        weight = lambda s: sum(len(c.get("in", [])) + len(c.get("out", [])) for c in s["session"]["calls"])
        rows = []
        flagged_sessions, sampled_sessions, too_long = [], [], 0
        for r in pool(tasks, f"{self.prop}_{name}", timeout_ms=timeout_ms, vh=vh, stream=True):
            t = r.get("t")
            if t == "session":
                w = weight(r)
                if r.get("flagged"):
                    if len(flagged_sessions) < 4 * confirm_cap or w <= 40000:
                        flagged_sessions.append(r)
                        if len(flagged_sessions) > 8 * confirm_cap:
                            flagged_sessions = sorted(flagged_sessions, key=weight)[:4 * confirm_cap]
                elif w > 40000:
                    too_long += 1
                elif len(sampled_sessions) < 20 * sample_cap:
                    sampled_sessions.append(r)
                continue
            rows.append(r)
            if t == "done":
                self.evaluations += r["evaluated"]
                self.extra["formatter_calls"] = self.extra.get("formatter_calls", 0) + r.get("runs", 0)
                self.nontrivial += r.get("nontrivial", {}).get(self.prop, 0)
                self.extra["skipped_precondition"] = self.extra.get("skipped_precondition", 0) + r.get("skipped_precondition", 0)
                too_long += r.get("sessions_too_long", 0)
            elif t == "viol":
                if r["prop"] == self.prop:
                    self.add_violation(r)
                elif r["prop"] == "C04" and self.prop != "C04":
                    self.extra["aborts_seen_(C04)"] = self.extra.get("aborts_seen_(C04)", 0) + 1
            elif t in ("hang", "crash"):
                if t == "hang" and self.prop == "C04" and self._only_slow(r, tasks, props, vh, timeout_ms):
                    self.extra["slow_cases_under_load"] = self.extra.get("slow_cases_under_load", 0) + 1
                    continue
                if self.prop == "C04":
                    self.add_violation({"prop": "C04", "clause": t, "detail": f"{t} (no progress / process died)", "case": r.get("case") or {"label": str(r.get("index")), "suite": r.get("suite")}})
                else:
                    self.extra[f"{t}s_seen_(C04)"] = self.extra.get(f"{t}s_seen_(C04)", 0) + 1
            elif t == "tool_error":
                self.tool_errors.append(r.get("detail", "pool error"))
        if len(self.samples) < 6:
            for s in sampled_sessions[:3]:
                c = s["session"]["calls"][0]
                self.samples.append({"label": s.get("label"), "cfg": s.get("cfg"), "input": "".join(chr(x) for x in c["in"])[:300],
                                     "output": "".join(chr(x) for x in c.get("out", []))[:300]})
        # TLC re-decides flagged sessions (all up to a cap) and a sample of the others
        # (TLC's cost per session grows faster than linearly with the length of the texts: of the sessions nothing was
        # flagged in, only those of moderate size are sampled; flagged ones are all kept, the smallest first)
        mine = sorted(flagged_sessions, key=weight)
        random.Random(SEED).shuffle(sampled_sessions)
        self.extra["sessions_too_long_to_sample"] = self.extra.get("sessions_too_long_to_sample", 0) + too_long
        chosen = mine[:confirm_cap] + sampled_sessions[:sample_cap]
        if chosen:
            self.validate_sessions(chosen, name, props)
        return rows

    def _only_slow(self, row, tasks, props, vh, timeout_ms=2000):
        """A case that made no progress within the (wall-clock) time limit is run again alone, under the configuration it was
        running with, and the PROCESSOR time of that run is measured: a busy machine stretches wall-clock time, not
        processor time. Only a case whose processor time is within the original limit was merely slowed down by the load;
        one that needs more, or does not finish within 120 s, is a hang."""
        import resource
        case = row.get("case") or {}
        if not case.get("text"):
            return False
        # (the verdict is settled after two confirmed hangs: further ones are reported as they are; and after a dozen cases
        # that were merely slowed down the machine is evidently busy: further ones are taken for the same)
        rc = self.extra.get("hang_rechecks", [])
        if sum(1 for x in rc if not x["only_slow"]) >= 2:
            return False
        if len(rc) >= 12:
            self.extra["hangs_not_rechecked_(machine_busy)"] = self.extra.get("hangs_not_rechecked_(machine_busy)", 0) + 1
            return True
        t0 = next((t for t in tasks if t.get("id") == row.get("task")), None)
        tf = os.path.join(WORK, f"{self.prop}_recheck_{row.get('task')}_{row.get('index')}.ndjson")
        write_ndjson(tf, [{"text": case["text"], "wf": False, "label": case.get("label", "recheck")}])
        cfgs = [case["cfg"]] if isinstance(case.get("cfg"), dict) else (t0 or {}).get("cfgs", "six")
        task = {"suite": "texts", "params": {"path": tf}, "start": 0, "end": 1, "props": props, "cfgs": cfgs}
        before = resource.getrusage(resource.RUSAGE_CHILDREN)
        try:
            rows = pool([task], f"{self.prop}_recheck", procs=1, timeout_ms=120000, vh=vh)
        except Exception:
            return False
        after = resource.getrusage(resource.RUSAGE_CHILDREN)
        cpu = (after.ru_utime + after.ru_stime) - (before.ru_utime + before.ru_stime)
        finished = not any(x.get("t") in ("hang", "crash") for x in rows) and any(x.get("t") == "done" for x in rows)
        only_slow = finished and cpu <= timeout_ms / 1000
        self.extra.setdefault("hang_rechecks", []).append({"label": case.get("label"), "cpu_s": round(cpu, 2), "limit_s": timeout_ms / 1000, "finished": finished, "only_slow": only_slow})
        return only_slow

    def validate_sessions(self, sessions, name, props):
        # the sessions are independent (each starts with a Reset event): they are cut into chunks of comparable size, each
        # validated by its own TLC process (one worker each, depth-first queue), a few processes side by side
        from concurrent.futures import ThreadPoolExecutor
        weight = lambda s: sum(len(c.get("in", [])) + len(c.get("out", [])) for c in s["session"]["calls"]) + 2000
        total = sum(weight(s) for s in sessions)
        nchunks = max(1, min(12, total // 400000 + 1, len(sessions)))
        order = sorted(range(len(sessions)), key=lambda i: -weight(sessions[i]))
        chunks, loads = [[] for _ in range(nchunks)], [0] * nchunks
        for i in order:
            k = loads.index(min(loads))
            chunks[k].append(i)
            loads[k] += weight(sessions[i])

        def one(k):
            trace = os.path.join(WORK, f"{self.prop}_{name}.trace.{k}.ndjson")
            with open(trace, "w") as f:
                for sid in chunks[k]:
                    s = sessions[sid]
                    f.write(json.dumps({"ev": "Reset", "sid": sid}) + "\n")
                    for c in s["session"]["calls"]:
                        f.write(json.dumps({"ev": "Call", "sid": sid, "check": props, "c": c}) + "\n")
                    for rel in s["session"]["rels"]:
                        e = dict(rel)
                        e.update({"ev": "Rel", "sid": sid})
                        f.write(json.dumps(e) + "\n")
            return tlc("TraceSession", "TraceSession.cfg", workers=1, timeout=Q_TIMEOUT(self.tier), name=f"{self.prop}_{name}_trace{k}",
                       env={"TRACE": trace, "JAVA_TOOL_OPTIONS": "-Dtlc2.tool.queue.IStateQueue=StateDeque"}, jvm=["-Xmx6g", "-Xss1g"], coverage=False)

        with ThreadPoolExecutor(max_workers=min(6, nchunks)) as ex:
            results = list(ex.map(one, range(nchunks)))
        r = {"prints": [], "states": 0, "transitions": 0}
        for k, rk in enumerate(results):
            if "REJECTED" in rk["stdout"] or not rk["ok"]:
                self.tool_errors.append(f"trace of recorded sessions (chunk {k} of {nchunks}) was not accepted by TraceSession:\n" + tlc_error_text(rk, 25))
                return
            r["prints"] += rk["prints"]
            r["states"] += rk["states"]
            r["transitions"] += rk["transitions"]
        self.traces_validated += len(sessions)
        self.states += r["states"]
        self.transitions += r["transitions"]
        self.extra["trace_events_validated"] = self.extra.get("trace_events_validated", 0) + r["states"] - nchunks
        tlc_viol = collections.defaultdict(set)
        for tag, p in r["prints"]:
            if tag == "VIOL":
                tlc_viol[p["sid"]].add((p["prop"], p["clause"]))
            elif tag == "SKIP":
                self.extra["tlc_skipped_precondition"] = self.extra.get("tlc_skipped_precondition", 0) + 1
            elif tag == "STAGES":
                self.extra["pipeline_stage_traces_validated"] = self.extra.get("pipeline_stage_traces_validated", 0) + 1
            elif tag == "REFLOW":
                self.extra["second_pass_traces_validated"] = self.extra.get("second_pass_traces_validated", 0) + 1
                if p.get("rewritten", 0) > 0:
                    self.extra["second_pass_traces_with_rewritten_literals"] = self.extra.get("second_pass_traces_with_rewritten_literals", 0) + 1
            elif tag == "DRIFT":
                mod = p.get("module", "Pipeline")
                self.extra[f"model_drift_{mod}"] = self.extra.get(f"model_drift_{mod}", 0) + 1
                if len(self.drift) < 5:
                    self.drift.append(p)
                    self.notes.append(f"MODEL-DRIFT {mod}: {p.get('clause')} not satisfied by a recorded run (session {p.get('sid')})")
        for sid, s in enumerate(sessions):
            tv = {x for x in tlc_viol.get(sid, set()) if x[0] == self.prop}
            if s.get("flagged"):
                rust_mine = [v for v in self.violations + self.known_list if v.get("index") == s.get("index") and v.get("task") == s.get("task")]
                if rust_mine and not tv and tlc_viol.get(sid):
                    # TLC sees the session violate a predicate, filed under another property (an abort is C04 for TLC whatever
                    # the check that met it): confirmed
                    for v in rust_mine:
                        v["confirmed_by_tlc"] = True
                    continue
                if rust_mine and not tv and all("panic" in str(v.get("clause")) or v.get("clause") in ("hang", "crash", "abort") for v in rust_mine):
                    # an abort of the code under test is an observed fact, not a predicate to re-decide (the scanner may abort
                    # before any call is recorded, and then the session holds nothing TLC could look at)
                    for v in rust_mine:
                        v["confirmed_by_tlc"] = False
                        v["observed_abort"] = True
                    continue
                if rust_mine and not tv:
                    # TLC is the judge: what the fast monitor flags and the specification's predicate does not is no verdict
                    self.tool_errors.append(f"monitor disagreement: harness flagged {self.prop} on {s.get('label')} ({rust_mine[0].get('clause')}) but TLC did not confirm it")
                    for v in rust_mine:
                        if v in self.violations:
                            self.violations.remove(v)
                            self.extra["violations_total"] = max(0, self.extra.get("violations_total", 1) - 1)
                        if v in self.known_list:
                            self.known_list.remove(v)
                    continue
                for v in rust_mine:
                    v["confirmed_by_tlc"] = bool(tv)
            elif tv:
                # TLC found what the fast monitor missed
                self.add_violation({"prop": self.prop, "clause": sorted(tv)[0][1], "detail": "found by TLC on a sampled session (fast monitor silent)",
                                    "case": {"label": s.get("label"), "cfg": s.get("cfg"), "text": "".join(chr(x) for x in s["session"]["calls"][0]["in"])},
                                    "confirmed_by_tlc": True})

    # ------------------------------------------------------------------ violations
    def add_violation(self, v):
        k = match_known(self.prop, v, self.known)
        if k is not None:
            self.known_hits[k["id"]] += 1
            if len(self.known_list) < 200:
                self.known_list.append(v)
            self.known_what[k["id"]] = k["what"]
        else:
            if len(self.violations) < 5000:
                self.violations.append(v)
            self.extra["violations_total"] = self.extra.get("violations_total", 0) + 1

    # ------------------------------------------------------------------ finish
    def finish(self, rule, assumptions=None, explanation=None):
        wall = time.time() - self.t0
        cov = {
            "states": self.states, "transitions": self.transitions,
            "traces_validated_against_impl": self.traces_validated,
            "evaluations": max(self.evaluations, 1), "distinct_nontrivial": max(self.nontrivial, 0),
            "rule": rule, "samples": self.samples[:8] or [{"note": "no sample recorded"}],
            "exhaustive": self.exhaustive, "model_checking_runs": self.mc_runs, "notes": self.notes,
            "known_findings_hit": dict(self.known_hits), "tool_errors": self.tool_errors[:10],
            "violations_sample": [{k: (v[k] if k != "case" else {kk: vv for kk, vv in (v[k] or {}).items() if kk != "session"}) for k in v if k not in ("session",)} for v in self.violations[:5]],
        }
        cov.update(self.extra)
        # non-vacuity against the recorded baseline of the unchanged tree: a check whose preconditions silently stopped
        # holding (so that it evaluates far fewer clauses than it used to) has not decided anything
        try:
            base = json.load(open(os.path.join(VERIF, "baselines.json"))).get(f"{self.prop}:{self.tier}")
        except Exception:
            base = None
        if base and SEED == 1 and not self.violations:
            for key, have in (("distinct_nontrivial", self.nontrivial), ("traces_validated_against_impl", self.traces_validated)):
                want = base.get(key, 0)
                if want >= 20 and have < 0.5 * want:
                    self.tool_errors.append(f"non-vacuity: {key} = {have}, the unchanged tree gives {want} (baselines.json): most of the check's clauses were not evaluated")
            cov["baseline"] = base
        if explanation:
            cov["explanation"] = explanation
        nviol = self.extra.get("violations_total", len(self.violations))
        write_evidence(self.prop, self.tier, self.level, cov, wall, nviol, assumptions)
        for kid, n in self.known_hits.items():
            print(f"KNOWN-FINDING: property={self.prop} {kid}: {self.known_what.get(kid, '')} ({n} occurrence(s) in this run)")
        # every violation (up to 5000) for tooling; the first five as replay files
        with open(os.path.join(OUT, f"{self.prop}.violations.ndjson"), "w") as fh:
            for v in self.violations:
                fh.write(json.dumps({k: v[k] for k in v if k != "session"}) + "\n")
        if self.violations:
            for i, v in enumerate(self.violations[:5]):
                p = write_replay(self.prop, v, i)
                print(f"VIOLATION property={self.prop} replay={p}")
                log(f"   clause={v.get('clause')} {str(v.get('detail'))[:300]}")
                c = v.get("case") or {}
                log(f"   case={c.get('label')} cfg={json.dumps(c.get('cfg'))} text={json.dumps((c.get('text') or '')[:200])}")
            return 1
        if self.tool_errors:
            for e in self.tool_errors[:10]:
                log(f"TOOL-ERROR [{self.prop}] {e}")
            return 2
        log(f"[{self.prop}] {self.tier}: ok in {wall:.1f}s; evaluations={self.evaluations} states={self.states} traces={self.traces_validated}")
        return 0
