"""Black-box driver of the real `pasfmt` binary: scenarios printed by TLC (CliModes / CliConfig / CliEnc / CliWorkers)
are materialised in scratch directories, the binary is run, and the observable outcome (bytes of every file, exit
status, stdout) is compared with the model's final state."""
import json, os, shutil, subprocess, tempfile, hashlib, random, stat
from concurrent.futures import ThreadPoolExecutor
from common import *

CLI_ROOT = os.path.join(WORK, "cli")


def ensure_clean_ancestors():
    d = CLI_ROOT
    while True:
        if os.path.isfile(os.path.join(d, "pasfmt.toml")):
            raise ToolError(f"a pasfmt.toml above the scratch area would leak into every scenario: {d}")
        nd = os.path.dirname(d)
        if nd == d:
            break
        d = nd


def run_bin(args, cwd, stdin=b"", env=None, timeout=60):
    e = dict(os.environ)
    e.pop("PASFMT_VERIF_TRACE", None)
    if env:
        e.update(env)
    try:
        r = subprocess.run([PASFMT] + args, cwd=cwd, input=stdin, stdout=subprocess.PIPE, stderr=subprocess.PIPE, env=e, timeout=timeout)
        return r.returncode, r.stdout, r.stderr
    except subprocess.TimeoutExpired:
        return -999, b"", b"timeout"


_oracle = {}


def oracle(content, args=()):
    """format(content) as the property defines it: what the same binary prints for the content on standard input."""
    k = (content, tuple(args))
    if k not in _oracle:
        os.makedirs(CLI_ROOT, exist_ok=True)
        rc, out, err = run_bin(list(args), CLI_ROOT, stdin=content)
        _oracle[k] = (rc, out)
    return _oracle[k]


def concretise(cls, prog_text, big=False):
    """bytes of a file of the given content class, derived from one program text (big: more than 256 KiB)"""
    if big:
        # beyond 256 KiB, and every other time beyond 1 MiB (thresholds at which a buffer might be treated differently)
        target = 300 * 1024 if (len(prog_text) % 2 == 0) else 1300 * 1024
        prog_text = (prog_text + "\n") * (target // (len(prog_text) + 1) + 1)
    rc, F = oracle(prog_text.encode())
    if rc != 0 or not F.endswith(b"\n") or len(F) > 6_000_000:      # (repeated declarations can nest: quadratic indentation)
        return None
    if cls == "formatted":
        return F
    if cls == "shrinks":
        if hash(prog_text) % 3 == 0:
            return F.replace(b"\n", b"\r\n")            # differs from the result in its line terminators only
        t = F.replace(b" ", b"    ").replace(b"\n", b"\n\n\n") + b"\n\n"
        return t
    if cls == "grows":
        t = b" ".join(F.split())
        return t
    if cls == "samelen":
        i = F.find(b";")
        if i < 0:
            return None
        return F[:i] + b" ;" + F[i + 1:-1]
    if cls == "empty":
        return b""
    if cls == "undecodable":
        k = len(prog_text) % 3
        if k == 1:
            return b"\xff\xfe" + F[:20].decode("utf-8", "ignore").encode("utf-16-le") + b"\x3b"        # UTF-16LE with a dangling byte
        if k == 2:
            return b"\xfe\xff" + "a := ".encode("utf-16-be") + b"\xd8\x00" + ";".encode("utf-16-be")   # UTF-16BE with a lone surrogate
        return b"a\x80\xc3(" + F[:10]
    return None


def check_class(cls, content):
    """R4: the concrete content really is in its class (judged with the oracle)"""
    if cls in ("undecodable",):
        # malformed by construction (invalid UTF-8 byte, UTF-16 with a dangling byte or a lone surrogate - CliEnc.tla): the
        # binary under test is not asked whether it agrees
        return True
    rc, out = oracle(content)
    if rc != 0:
        return False
    if cls == "formatted":
        return out == content
    if cls == "shrinks":
        return len(out) < len(content)
    if cls == "grows":
        return len(out) > len(content)
    if cls == "samelen":
        return len(out) == len(content) and out != content
    if cls == "empty":
        return content == b""
    return False


def run_modes_scenario(idx, sc, texts):
    """sc: {mode, form, class: {f: cls}, exit, final: {f: old|new}, printed: [...]}; returns list of problems"""
    root = tempfile.mkdtemp(prefix=f"m{idx}_", dir=CLI_ROOT)
    problems, skipped = [], False
    try:
        d = os.path.join(root, "src")
        os.makedirs(os.path.join(d, "sub"))
        files, contents = {}, {}
        rnd = random.Random(SEED * 7919 + idx)
        # refinements of the model's scenario that its abstraction must be insensitive to (the model's files are distinct
        # whatever their names; its byte counts stand for any sizes; a worker may have handled any file before):
        #   twins: two of the files have names that differ in letter case only
        #   big:   the first file is larger than 256 KiB and is followed, on one worker thread, by the others and by padding files
        variant = idx % 4
        twins = variant in (1, 3) and sc["form"] != "stdin"
        big = variant == 2 and sc["form"] in ("file", "files_from")
        #   utf16: the files are stored as UTF-16LE behind a BOM (the byte length of a result is not that of its UTF-8 form)
        #   loglevel: the diagnostics are switched off or turned up (reporting an error and logging it are different things)
        utf16 = (idx // 4) % 3 == 1
        loglevel = [None, "OFF", None, "DEBUG", None, "ERROR", None][idx % 7]
        for k, (f, cls) in enumerate(sorted(sc["class"].items())):
            names = [{0: "f1.pas", 1: "sub/f2.dpr", 2: "f3.PAS"}, {0: "a b.Dpk", 1: "deep/er/Gr\u00f6\u00dfe.pas", 2: "c.DPR"}][(idx // 4) % 2]
            name = names.get(k, f"g{k}.pas") if sc["form"] in ("dir", "files_from", "file") else f"f{k + 1}.pas"
            if sc["form"] in ("file", "files_from") and k == 2 and (idx // 8) % 2 == 1:
                name = ["defs.inc", "prog.lpr", "noext"][(idx // 16) % 3]       # an explicitly named file is handled whatever it is called
            if twins and k in (0, 2):
                name = "Unit1.pas" if k == 0 else "unit1.pas"
            path = os.path.join(d, name)
            files[f] = path
            if cls == "missing":
                contents[f] = None
                continue
            if cls == "dangling":
                os.makedirs(os.path.dirname(path), exist_ok=True)
                os.symlink(os.path.join(d, "nowhere.pas"), path)
                contents[f] = None
                continue
            c = None
            for _ in range(20):
                c = concretise(cls, rnd.choice(texts), big=big and k == 0 and cls != "empty")
                if c is not None and check_class(cls, c):
                    break
                c = None
            if c is None:
                return [], True
            if utf16 and cls in ("formatted", "shrinks", "grows", "samelen"):
                c16 = b"\xff\xfe" + c.decode("utf-8").encode("utf-16-le")
                if check_class(cls, c16):
                    c = c16
            contents[f] = c
            os.makedirs(os.path.dirname(path), exist_ok=True)
            with open(path, "wb") as fh:
                fh.write(c)
        other = os.path.join(d, "notes.txt")
        with open(other, "wb") as fh:
            fh.write(b"a ;  not pascal")
        before = {f: (os.stat(p).st_mtime_ns, os.stat(p).st_ino) for f, p in files.items() if contents[f] is not None}
        pads = []
        if big:
            for k in range(13):
                pp = os.path.join(d, f"pad{k:02d}.pas")
                with open(pp, "wb") as fh:
                    fh.write(b"a;\n")
                pads.append(pp)
        mode_args = ["--mode", sc["mode"]] + (["--log-level", loglevel] if loglevel else [])
        stdin = b""
        form = sc["form"]
        if form == "file":
            args = mode_args + [files[f] for f in sorted(files)] + pads
        elif form == "dir":
            args = mode_args + [d]
        elif form == "glob":
            args = mode_args + [os.path.join(d, "*.pas")]
        elif form == "files_from":
            lst = os.path.join(root, "list.txt")
            with open(lst, "w") as fh:
                fh.write("\n".join([files[f] for f in sorted(files)] + pads) + "\n")
            args = mode_args + ["--files-from", lst]
        else:
            f0 = sorted(files)[0]
            stdin = contents[f0] or b""
            args = mode_args
        rc, out, err = run_bin(args, root, stdin=stdin, env={"RAYON_NUM_THREADS": "1"} if big else None)
        what = f"mode={sc['mode']} form={form} classes={sc['class']}" + (" (names differing in case only)" if twins else "") + (" (first file > 256 KiB, one thread, padding files)" if big else "") + (" (UTF-16LE files)" if utf16 else "") + (f" --log-level {loglevel}" if loglevel else "")
        for pp in pads:
            if open(pp, "rb").read() != b"a;\n":
                problems.append({"clause": "files_mode_result" if sc["mode"] == "files" else "only_files_mode_writes", "detail": f"a formatted padding file was changed ({what})"})
                break
        if rc != sc["exit"] and not (rc != 0 and sc["exit"] != 0):
            problems.append({"clause": "exit_status", "detail": f"exit status {rc}, the model says {sc['exit']} ({what}); stderr: {err[-300:].decode(errors='replace')}"})
        stream = sorted(files)[0]
        for f, p in files.items():
            c = contents[f]
            if c is None:
                if os.path.lexists(p) and not os.path.islink(p):
                    problems.append({"clause": "failing_untouched", "detail": f"{f}: a missing file came into existence ({what})"})
                continue
            now = open(p, "rb").read()
            want = sc["final"][f]
            if form == "stdin":
                want = "old"
            exp = c if want == "old" else oracle(c)[1]
            if now != exp:
                kind = "files_mode_result" if want == "new" else ("failing_untouched" if sc["class"][f] in ("undecodable",) else "only_files_mode_writes")
                tail = ""
                if want == "new" and now.startswith(exp) and len(now) > len(exp):
                    tail = " (stale tail after the new content)"
                problems.append({"clause": kind, "detail": f"{f} ({sc['class'][f]}): file holds {len(now)} bytes, expected {len(exp)} bytes = {'the formatted result' if want == 'new' else 'the untouched original'}{tail} ({what})"})
            elif want == "old" and (os.stat(p).st_mtime_ns, os.stat(p).st_ino) != before[f]:
                problems.append({"clause": "unchanged_not_rewritten", "detail": f"{f} ({sc['class'][f]}): content is unchanged but the file was rewritten ({what})"})
        if open(other, "rb").read() != b"a ;  not pascal":
            problems.append({"clause": "only_files_mode_writes", "detail": f"notes.txt (not a Delphi source) was modified ({what})"})
        if sc["mode"] == "stdout" and sc["exit"] != 2:
            if form == "stdin":
                c = contents[stream]
                if sc["class"][stream] not in ("undecodable",) and out != oracle(c)[1]:
                    problems.append({"clause": "stdout_result", "detail": f"stdin->stdout differs from the oracle ({what})"})
            else:
                for f in sc["printed"]:
                    exp = oracle(contents[f])[1]
                    if exp.startswith(b"\xff\xfe"):
                        exp = exp[2:].decode("utf-16-le").encode("utf-8")      # the listing on stdout is text, not the file's bytes
                    if (files[f].encode() + b":\n" + exp + b"\n") not in out:
                        problems.append({"clause": "stdout_result", "detail": f"{f}: formatted text not printed under its name ({what})"})
        return problems, skipped
    finally:
        shutil.rmtree(root, ignore_errors=True)


def run_scenarios(fn, scenarios, *args, threads=12):
    os.makedirs(CLI_ROOT, exist_ok=True)
    ensure_clean_ancestors()
    with ThreadPoolExecutor(max_workers=threads) as ex:
        return list(ex.map(lambda p: fn(p[0], p[1], *args), enumerate(scenarios)))


# ------------------------------------------------------------------------------------------------ C19 configuration

OPT_VALUES = {"wrap_column": {1: "30", 2: "60", 3: "120"}, "begin_style": {1: "always_wrap", 2: "auto"}, "use_tabs": {1: "true", 2: "false"}}
# the option the model's "other" stands for (chosen per scenario): name, a non-default value, the default written out
OTHERS = [("format_multiline_strings", "false", "true"), ("tab_width", "4", "2"), ("continuation_indents", "1", "2"),
          ("line_ending", "crlf", "native"), ("encoding", "iso-2022-jp", "native"), ("tab_width", "0", "2"), ("line_ending", "crlf", "lf")]
TOP = {"wrap_column": 3, "begin_style": 2, "use_tabs": 2, "other": 2}
# a probe every option leaves its mark on: a line to wrap, a `begin` to place, a multi-line literal that is not in place,
# a line whose width depends on how its bytes are decoded
PROBE = (b"procedure Foo;\nbegin\n  if SomeCondition and AnotherCondition or YetAnotherCondition then begin\n"
         b"    CallSomething(FirstArgument, SecondArgument, ThirdArgument, FourthArgument);\n  end;\n"
         b"  S := \'\'\'\n  first\n    second\n  \'\'\';\n"
         + "  Caf\u00e9 := Na\u00efve('\u00e9\u00e9\u00e9\u00e9\u00e9\u00e9\u00e9\u00e9\u00e9\u00e9\u00e9\u00e9\u00e9\u00e9\u00e9\u00e9\u00e9\u00e9\u00e9\u00e9', Argument, AnotherArgument, YetAnotherArgument, TheLastArgument1);\n".encode()
         + b"end;\n")

# ill-typed values that must be rejected, per route (the model's `bad_value`; one spelling per scenario)
# (a later source for the same key shadows an earlier one, whatever the earlier one says: the defect kinds use keys of
# their own - bad values and numbers out of range tab_width / line_ending / encoding, converted values
# continuation_indents - and none of the keys the model's settings use, so that a defect is never shadowed)
BAD_CLI = ["tab_width=wide", "tab_width=1e2", "tab_width=2.5", "tab_width=1.0", "tab_width=nan", "tab_width=inf",
           "line_ending=CRLF", "tab_width=-1", "tab_width=0x10", "tab_width=", "tab_width=1_0",
           "tab_width=100.0", "line_ending=1", "encoding=nope", "tab_width= 5", "tab_width=2.0", "tab_width=1e0", "line_ending=Lf"]
BAD_TOML = ['tab_width = "wide"', "tab_width = [1]", "tab_width = -1", "line_ending = true", 'line_ending = "CRLF"',
            "tab_width = 1979-05-27", "tab_width = {a=1}", 'encoding = "nope"', "line_ending = 1", 'tab_width = ""']
# ill-typed values the configuration library converts instead of rejecting (the model's `coerced`; known finding F26 lists
# exactly these spellings, route by route)
COERCED_CLI = ["continuation_indents=true", "continuation_indents=on", "continuation_indents=yes", "continuation_indents=false"]
COERCED_TOML = ["continuation_indents = 2.5", "continuation_indents = nan", "continuation_indents = false", "continuation_indents = true", "continuation_indents = 1e0"]
RANGE_CLI = ["tab_width=258", "tab_width=256", "tab_width=65536", "tab_width=4294967296"]
RANGE_TOML = ["tab_width = 258", "tab_width = 300", "tab_width = 256", "tab_width = 65537"]


def _pick(lst, src, idx):
    return lst[(idx + src.get("wrap_column", 0) + 2 * src.get("use_tabs", 0)) % len(lst)]


def opt_text(o, i, idx):
    """(key, value) of option o at value index i"""
    if o == "other":
        name, nd, dflt = OTHERS[idx % len(OTHERS)]
        return name, (nd if i == 1 else dflt)
    return o, OPT_VALUES[o][i]


def toml_bytes(src, idx=0):
    """the bytes of a configuration file for a source (an `unreadable` one is not valid UTF-8)"""
    t = toml_of(src, idx).encode()
    if src["defect"] == "unreadable":
        return [b"# caf\xe9 style\n" + t, b"\xff\xfe" + t.decode().encode("utf-16-le")][(src.get("wrap_column", 0) + src.get("use_tabs", 0)) % 2]
    return t


def toml_of(src, idx=0):
    lines = []
    for o in ("wrap_column", "begin_style", "use_tabs", "other"):
        if src.get(o, 0):
            k, v = opt_text(o, src[o], idx)
            lines.append(f'{k} = "{v}"' if k in ("begin_style", "line_ending", "encoding") else f"{k} = {v}")
    if src["defect"] == "unknown_key":
        lines.append("no_such_option = 1")
    if src["defect"] == "bad_value":
        lines.append(_pick(BAD_TOML, src, idx))
    if src["defect"] == "coerced":
        lines.append(_pick(COERCED_TOML, src, idx))
    if src["defect"] == "out_of_range":
        lines.append(_pick(RANGE_TOML, src, idx))
    return "\n".join(lines) + "\n"


def override_args(src, idx=0):
    a = []
    for o in ("wrap_column", "begin_style", "use_tabs", "other"):
        if src.get(o, 0):
            k, v = opt_text(o, src[o], idx)
            a += ["-C", f"{k}={v}"]
    if src["defect"] == "unknown_key":
        a += ["-C", "no_such_option=1"]
    if src["defect"] == "bad_value":
        a += ["-C", _pick(BAD_CLI, src, idx)]
    if src["defect"] == "coerced":
        a += ["-C", _pick(COERCED_CLI, src, idx)]
    if src["defect"] == "out_of_range":
        a += ["-C", _pick(RANGE_CLI, src, idx)]
    return a


def run_config_scenario(idx, sc):
    root = tempfile.mkdtemp(prefix=f"c{idx}_", dir=CLI_ROOT)
    problems = []
    try:
        depth = len(sc["tree"]) - 1
        d = root
        dirs = []
        for lvl in range(depth + 1):
            d = os.path.join(d, f"l{lvl}")
            os.makedirs(d)
            dirs.append(d)
            src = sc["tree"][str(lvl)]
            if src["defect"] == "is_dir":
                os.makedirs(os.path.join(d, "pasfmt.toml"))
            elif src["defect"] != "absent":
                with open(os.path.join(d, "pasfmt.toml"), "wb") as fh:
                    fh.write(toml_bytes(src, idx))
        cwd = dirs[-1]
        probe = os.path.join(cwd, "probe.pas")
        with open(probe, "wb") as fh:
            fh.write(PROBE)
        args = []
        if sc["cfgArg"] == "file":
            # (the name of an explicitly given file is of no consequence)
            p = os.path.join(root, ["custom.toml", "team-style.cfg", "pasfmt.toml.shared", ".pasfmt", "style", "Custom.TOML"][idx % 6])
            with open(p, "wb") as fh:
                fh.write(toml_bytes(sc["argSource"], idx))
            args += ["--config-file", p]
        elif sc["cfgArg"] == "missing":
            args += ["--config-file", os.path.join(root, "does_not_exist.toml")]
        elif sc["cfgArg"] == "dir":
            args += ["--config-file", dirs[0]]
        for o in sc["overrides"]:
            args += override_args(o, idx)
        rc, out, err = run_bin(args + ["probe.pas"], cwd)
        now = open(probe, "rb").read()
        what = f"tree={[sc['tree'][str(l)] for l in range(depth + 1)]} --config-file={sc['cfgArg']}:{sc['argSource']} -C={sc['overrides']} argv={args}"
        if sc["error"]:
            # the sources that are actually read: the file chosen (given, or the nearest one) and the -C options
            files = [sc["tree"][str(l)] for l in range(depth + 1) if sc["tree"][str(l)]["defect"] not in ("absent", "is_dir")]
            read = ([sc["argSource"]] if sc["cfgArg"] == "file" else files[-1:]) if sc["cfgArg"] in ("none", "file") else None
            coerced, others = [], ["no file"]
            if read is not None:
                coerced = [l for src in read if src["defect"] == "coerced" for l in toml_of(src, idx).split("\n") if l in COERCED_TOML] + [x for x in args if x in COERCED_CLI]
                # (F26 applies only when a converted value is the only defect the run could have stopped for)
                others = [src["defect"] for src in read + sc["overrides"] if src["defect"] not in ("none", "coerced")]
            site = f" [site: converted instead of rejected: {coerced[0]!r} {'on the command line' if coerced[0] in COERCED_CLI else 'in a configuration file'}]" if coerced and not others else ""
            if rc == 0:
                problems.append({"clause": "rejects_invalid", "detail": f"exit status 0 although the configuration is invalid ({what}){site}"})
            if now != PROBE:
                problems.append({"clause": "error_before_touch", "detail": f"the file was modified although the configuration was rejected ({what}){site}"})
        else:
            eff_args = []
            meaning = sc.get("meaning") or sc["eff"]
            for o in ("wrap_column", "begin_style", "use_tabs", "other"):
                if meaning.get(o, 0):
                    k, v = opt_text(o, meaning[o], idx)
                    eff_args += ["-C", f"{k}={v}"]
            erc, exp = oracle(PROBE, eff_args)
            if erc != 0:
                # (the probe cannot be read under this configuration - e.g. its bytes are malformed in the configured
                # encoding: every spelling of the configuration must then fail alike and leave the file alone)
                if rc == 0 or now != PROBE:
                    problems.append({"clause": "effective_configuration", "detail": f"the canonical spelling {eff_args} fails on the probe, this spelling gives exit status {rc} and {'a modified' if now != PROBE else 'an unmodified'} file ({what})"})
            elif rc != 0:
                problems.append({"clause": "accepts_valid", "detail": f"exit status {rc} for a valid configuration ({what}); stderr {err[-300:].decode(errors='replace')}"})
            elif now != exp:
                problems.append({"clause": "effective_configuration", "detail": f"result differs from the one for the same effective configuration {sc['eff']} in its canonical spelling {eff_args} in an empty tree ({what})"})
            # every spelling of the same meaning gives the same bytes: all defaults written out, on the command line
            if not meaning or not any(meaning.values()):
                full = []
                for k, v in [("wrap_column", "120"), ("begin_style", "auto"), ("format_multiline_strings", "true"), ("encoding", "native"), ("use_tabs", "false"),
                             ("tab_width", "2"), ("continuation_indents", "2"), ("line_ending", "native")]:
                    full += ["-C", f"{k}={v}"]
                frc, fexp = oracle(PROBE, full)
                if frc == 0 and rc == 0 and fexp != now:
                    problems.append({"clause": "effective_configuration", "detail": f"the defaults written out ({full}) give another result than the defaults left out ({what})"})
        return problems, False
    finally:
        shutil.rmtree(root, ignore_errors=True)


# ------------------------------------------------------------------------------------------------ C17 encodings

def run_enc_scenario(idx, sc):
    """sc: {stored, option, damage, text, input: [bytes], error, output: [bytes]} from CliEnc.tla"""
    root = tempfile.mkdtemp(prefix=f"e{idx}_", dir=CLI_ROOT)
    problems = []
    try:
        inp, exp = bytes(sc["input"]), bytes(sc["output"])
        p = os.path.join(root, "u.pas")
        with open(p, "wb") as fh:
            fh.write(inp)
        args = ["-C", f"encoding={sc['option']}"]
        what = f"stored={sc['stored']} option={sc['option']} damage={sc['damage']} text={sc['text']}"
        rc, out, err = run_bin(args + [p], root)
        now = open(p, "rb").read()
        if sc["error"]:
            if rc == 0:
                problems.append({"clause": "malformed_rejected", "detail": f"exit status 0 for malformed input ({what})"})
            if now != inp:
                problems.append({"clause": "malformed_untouched", "detail": f"malformed input was rewritten ({what})"})
        else:
            if rc != 0:
                problems.append({"clause": "round_trip", "detail": f"exit status {rc} ({what}): {err[-200:].decode(errors='replace')}"})
            elif now != exp:
                problems.append({"clause": "round_trip", "detail": f"file holds {list(now)}, the specification's encoder gives {list(exp)} ({what})"})
        # the piped path
        rc2, out2, err2 = run_bin(args, root, stdin=inp)
        # ... and a producer that delivers the first byte of the input (half a BOM) well before the rest
        if not sc["error"] and len(inp) >= 2 and (idx % 3 == 0 or inp[:1] in (b"\xff", b"\xfe", b"\xef")) and idx % 2 == 0:
            import time as _t
            e = dict(os.environ); e.pop("PASFMT_VERIF_TRACE", None)
            pr = subprocess.Popen([PASFMT] + args, cwd=root, stdin=subprocess.PIPE, stdout=subprocess.PIPE, stderr=subprocess.PIPE, env=e)
            try:
                pr.stdin.write(inp[:1]); pr.stdin.flush(); _t.sleep(0.25)
                pr.stdin.write(inp[1:2]); pr.stdin.flush(); _t.sleep(0.15)
                pr.stdin.write(inp[2:]); pr.stdin.close()
                out4 = pr.stdout.read(); pr.stderr.read(); rc4 = pr.wait(timeout=60)
            except Exception as ex:
                pr.kill(); rc4, out4 = -998, b""
            if rc4 != 0 or out4 != exp:
                problems.append({"clause": "round_trip", "detail": f"stdin delivered in three pieces (1 + 1 + rest bytes): exit status {rc4}, output {list(out4)[:40]}, expected {list(exp)[:40]} ({what})"})
        if sc["error"]:
            if rc2 == 0:
                problems.append({"clause": "malformed_rejected", "detail": f"stdin: exit status 0 for malformed input ({what})"})
        elif rc2 != 0 or out2 != exp:
            problems.append({"clause": "round_trip", "detail": f"stdin->stdout gives {list(out2)[:60]}, expected {list(exp)[:60]} ({what})"})
        return problems, False
    finally:
        shutil.rmtree(root, ignore_errors=True)


LEGACY = [("utf-8", "utf-8", b""), ("utf-8", "utf-8", b"\xef\xbb\xbf"), ("utf-16le", "utf-16-le", b"\xff\xfe"), ("utf-16be", "utf-16-be", b"\xfe\xff"),
          ("utf-16le", "utf-16-le", b""), ("utf-16be", "utf-16-be", b""), ("windows-1252", "cp1252", b""), ("windows-1251", "cp1251", b""),
          ("shift_jis", "shift_jis", b""), ("gbk", "gbk", b""), ("euc-kr", "euc_kr", b""), ("big5", "big5", b""), ("iso-8859-2", "iso8859_2", b""),
          # a stateful encoding (escape sequences switch character sets), and a few more families
          ("iso-2022-jp", "iso2022_jp", b""), ("euc-jp", "euc_jp", b""), ("gb18030", "gb18030", b""), ("koi8-r", "koi8_r", b""), ("ibm866", "cp866", b""),
          ("windows-1250", "cp1250", b""), ("windows-1253", "cp1253", b""), ("windows-1257", "cp1257", b"")]
SAMPLE_WORDS = {"cp1252": "Größe café", "cp1251": "Привет мир", "shift_jis": "日本語テキスト", "gbk": "中文文本", "euc_kr": "한국어", "big5": "繁體中文",
                "iso8859_2": "Łódź żółć", "iso2022_jp": "日本語テキスト", "euc_jp": "日本語テキスト", "gb18030": "中文文本", "koi8_r": "Привет мир", "cp866": "Привет мир",
                "cp1250": "Łódź žluťoučký", "cp1253": "Ελληνικά κείμενο", "cp1257": "Ąžuolas šešėlis", "utf-8": "Größe 日本語 😃 Привет", "utf-16-le": "Größe 日本語 😃", "utf-16-be": "Größe 😃 한국어"}


# a second set of sample words: characters that are LONGER in the legacy encoding than in UTF-8 (gb18030 spends four bytes on
# a Latin-1 letter, a stateful encoding six bytes of escape sequences on every short run)
ALT_WORDS = {"gb18030": "Größe äöüß éèêë ñõ", "iso2022_jp": "あaいbうcえdおeかfきgくh", "euc_jp": "あaいbうc", "shift_jis": "ｱｲｳ あa", "gbk": "中a文b文c本d",
             "cp1252": "€‚ƒ„…†‡ Ÿ", "utf-16-le": "aあb😃c", "utf-16-be": "😃😃😃 a", "utf-8": "\u00a0\u2028 x \ufeff y"}


def run_reject_batch_scenario(idx, sc):
    """sc: {n, bad: [positions], threads, kinds: [...]}: files of several encodings in ONE invocation, some of them malformed:
    a malformed file is rejected and left alone, and every other file is written as BOM + encode(format(decode(input))) -
    whatever was read before it on the same worker"""
    root = tempfile.mkdtemp(prefix=f"r{idx}_", dir=CLI_ROOT)
    problems = []
    try:
        rnd = random.Random(sc["seed"])
        d = os.path.join(root, "src")
        os.makedirs(d)
        expect, bad = {}, set()
        for k in range(sc["n"]):
            nm = f"f{k:03d}.pas"
            text = f"// file {k} Größe 日本語\nS{k} := 'x{k}';   T{k}:=S{k} ;\n" * rnd.choice([1, 1, 3, 40])
            codec, bom = rnd.choice([("utf-8", b""), ("utf-8", b"\xef\xbb\xbf"), ("utf-16-le", b"\xff\xfe"), ("utf-16-be", b"\xfe\xff")])
            rc0, formatted = oracle(text.encode("utf-8"))
            if rc0 != 0:
                return [], True
            if k in sc["bad"]:
                kind = rnd.choice(["utf16le_dangling", "utf8_invalid", "utf16be_surrogate", "utf16le_long"])
                body = {"utf16le_dangling": b"\xff\xfe" + "AB".encode("utf-16-le") + b"\x3b",
                        "utf8_invalid": b"x := 1;\x80\xc3(" + text.encode()[:40],
                        "utf16be_surrogate": b"\xfe\xff" + "a := ".encode("utf-16-be") + b"\xd8\x00" + ";".encode("utf-16-be"),
                        "utf16le_long": b"\xff\xfe" + (text * 3).encode("utf-16-le") + b"\x00"}[kind]
                bad.add(nm)
                expect[nm] = body
            else:
                body = bom + text.encode(codec)
                expect[nm] = bom + formatted.decode("utf-8").encode(codec)
            with open(os.path.join(d, nm), "wb") as fh:
                fh.write(body)
        rc, out, err = run_bin([d], root, env={"RAYON_NUM_THREADS": str(sc["threads"])})
        what = f"n={sc['n']} malformed={sorted(bad)} threads={sc['threads']}"
        if (rc != 0) != bool(bad):
            problems.append({"clause": "malformed_rejected", "detail": f"exit status {rc} ({what})"})
        for nm, exp in expect.items():
            now = open(os.path.join(d, nm), "rb").read()
            if now != exp:
                if nm in bad:
                    problems.append({"clause": "malformed_untouched", "detail": f"{nm} is malformed and was rewritten ({what})"})
                else:
                    problems.append({"clause": "round_trip", "detail": f"{nm}: bytes written differ from BOM + encode(format(decode(input))) - {len(now)} bytes starting {list(now[:12])}, expected {len(exp)} bytes starting {list(exp[:12])} ({what})"})
        return problems[:6], False
    finally:
        shutil.rmtree(root, ignore_errors=True)


def run_legacy_scenario(idx, sc):
    """sc: {label, codec, bom, text, conflicting_option}: bytes written must equal BOM + encode(format(decode(input)))"""
    root = tempfile.mkdtemp(prefix=f"l{idx}_", dir=CLI_ROOT)
    problems = []
    try:
        label, codec, bom, text = sc["label"], sc["codec"], bytes(sc["bom"]), sc["text"]
        try:
            inp = bom + text.encode(codec)
        except UnicodeEncodeError:
            return [], True
        rc0, formatted = oracle(text.encode("utf-8"))
        if rc0 != 0:
            return [], True
        exp = bom + formatted.decode("utf-8").encode(codec)
        p = os.path.join(root, "l.pas")
        with open(p, "wb") as fh:
            fh.write(inp)
        option = sc.get("option", label)
        rc, out, err = run_bin(["-C", f"encoding={option}", p], root)
        now = open(p, "rb").read()
        what = f"encoding={label} bom={list(bom)} option={option} text={text[:60]!r}"
        if rc != 0:
            problems.append({"clause": "round_trip", "detail": f"exit status {rc} ({what}): {err[-200:].decode(errors='replace')}"})
        elif now != exp:
            at = next((i for i in range(min(len(now), len(exp))) if now[i] != exp[i]), min(len(now), len(exp)))
            problems.append({"clause": "round_trip", "detail": f"bytes written differ from BOM + encode(format(decode(input))) at byte {at} of {len(exp)} ({what})"})
        else:
            # what was written is well-formed in the same encoding: the next run reads it and has nothing to do
            rc3, out3, err3 = run_bin(["-C", f"encoding={option}", "--mode", "check", p], root)
            if rc3 != 0:
                problems.append({"clause": "round_trip", "detail": f"the file just written is rejected by --mode=check ({what}): {err3[-200:].decode(errors='replace')}"})
        # the piped path
        rc2, out2, err2 = run_bin(["-C", f"encoding={option}"], root, stdin=inp)
        if rc2 != 0 or out2 != exp:
            problems.append({"clause": "round_trip", "detail": f"stdin->stdout: exit status {rc2}, {len(out2)} bytes, expected {len(exp)} bytes = BOM + encode(format(decode(input))) ({what})"})
        return problems, False
    finally:
        shutil.rmtree(root, ignore_errors=True)


def run_pair_scenario(idx, sc):
    """sc: {label, codec, bom, long, short}: two files of one encoding in ONE invocation on one worker thread, the long one first;
    each must hold BOM + encode(format(decode(input))) (no state of the first may leak into the second)"""
    root = tempfile.mkdtemp(prefix=f"p{idx}_", dir=CLI_ROOT)
    problems = []
    try:
        label, codec, bom = sc["label"], sc["codec"], bytes(sc["bom"])
        files, exps = [], []
        for k, text in enumerate((sc["long"], sc["short"], sc["long"][: len(sc["long"]) // 3])):
            try:
                inp = bom + text.encode(codec)
            except UnicodeEncodeError:
                return [], True
            rc0, formatted = oracle(text.encode("utf-8"))
            if rc0 != 0:
                return [], True
            p = os.path.join(root, f"p{k}.pas")
            with open(p, "wb") as fh:
                fh.write(inp)
            files.append(p)
            exps.append(bom + formatted.decode("utf-8").encode(codec))
        pads = []
        for k in range(13):
            pp = os.path.join(root, f"pad{k:02d}.pas")
            with open(pp, "wb") as fh:
                fh.write(bom + "a;\n".encode(codec))
            pads.append(pp)
        rc, out, err = run_bin(["-C", f"encoding={label}"] + files + pads, root, env={"RAYON_NUM_THREADS": "1"})
        what = f"encoding={label} bom={list(bom)} files of {[len(e) for e in exps]} result bytes in one invocation, one thread"
        if rc != 0:
            problems.append({"clause": "round_trip", "detail": f"exit status {rc} ({what}): {err[-200:].decode(errors='replace')}"})
        for p, e in zip(files, exps):
            now = open(p, "rb").read()
            if now != e:
                problems.append({"clause": "round_trip", "detail": f"{os.path.basename(p)} holds {len(now)} bytes, BOM + encode(format(decode(input))) has {len(e)} ({what})"})
        return problems, False
    finally:
        shutil.rmtree(root, ignore_errors=True)


UNENCODABLE = [("euc-jp", b"\x8f\xb0\xa1"), ("gbk", b"\x81\x30\x81\x30"), ("big5", b"\x87\x40"), ("shift_jis", b"\x87\x90"), ("iso-2022-jp", b"\x1b$B\x2d\x21\x1b(B")]


def run_unencodable_scenario(idx, sc):
    """sc: {label, raw}: bytes that the encoding can decode to a character it cannot encode again. If the run reports an error
    the file must be byte-for-byte untouched and the status non-zero (in every mode); if it succeeds the bytes must round-trip."""
    root = tempfile.mkdtemp(prefix=f"u{idx}_", dir=CLI_ROOT)
    problems = []
    try:
        inp = b"x   :=  '" + sc["raw"] + b"' ;\n"
        p = os.path.join(root, "u.pas")
        with open(p, "wb") as fh:
            fh.write(inp)
        args = ["-C", f"encoding={sc['label']}"]
        rc2, out2, err2 = run_bin(args, root, stdin=inp)
        rc, out, err = run_bin(args + [p], root)
        now = open(p, "rb").read()
        what = f"encoding={sc['label']} bytes={list(sc['raw'])}"
        if rc2 != 0:
            # the result cannot be written in this encoding: an error, and the file is left alone
            if rc == 0:
                problems.append({"clause": "malformed_rejected", "detail": f"stdin->stdout fails but files mode exits 0 ({what})"})
            if now != inp:
                problems.append({"clause": "malformed_untouched", "detail": f"files mode failed (exit status {rc}) and left {len(now)} bytes in a file of {len(inp)} bytes ({what})"})
        else:
            if rc != 0 or now != out2:
                problems.append({"clause": "round_trip", "detail": f"stdin->stdout succeeds with {len(out2)} bytes, files mode: exit status {rc}, {len(now)} bytes ({what})"})
        return problems, rc2 == 0 and False
    finally:
        shutil.rmtree(root, ignore_errors=True)


# ------------------------------------------------------------------------------------------------ C18 batches

def run_write_fault_scenario(idx, sc, texts):
    """sc: {threads, seed}: a batch in which some results cannot be written (a file-size limit makes writes beyond 1 KiB fail):
    the status must be non-zero, and every file whose result fits must be formatted as when formatted alone"""
    root = tempfile.mkdtemp(prefix=f"w{idx}_", dir=CLI_ROOT)
    problems = []
    try:
        rnd = random.Random(sc["seed"])
        d = os.path.join(root, "src")
        os.makedirs(d)
        small, big = {}, {}
        for k in range(6):
            t = rnd.choice([x for x in texts if len(x) < 300] or texts)
            inp = t.encode().replace(b";", b" ;  ") + b"\n\n"
            rc0, f = oracle(inp)
            if rc0 != 0 or len(f) > 900 or f == inp:
                continue
            nm = f"s{k}.pas"
            small[nm] = (inp, f)
        for k in range(3):
            t = "\n".join(rnd.choice(texts) for _ in range(30))
            rc0, f = oracle(t.encode())
            if rc0 != 0 or not (1500 < len(f) < 7000):
                continue
            # the input is longer than the result, so that shortening the file afterwards cannot fail
            inp = f.replace(b"\n", b"\n\n\n   ") + b"\n" * 50
            rc1, f1 = oracle(inp)
            if rc1 != 0 or not (1500 < len(f1) < len(inp)):
                continue
            big[f"b{k}.pas"] = (inp, f1)
        if len(small) < 2 or not big:
            return [], True
        names = list(small) + list(big)
        rnd.shuffle(names)
        for nm in names:
            with open(os.path.join(d, nm), "wb") as fh:
                fh.write((small.get(nm) or big.get(nm))[0])
        e = dict(os.environ); e.pop("PASFMT_VERIF_TRACE", None); e["RAYON_NUM_THREADS"] = str(sc["threads"])
        cmd = "trap '' XFSZ; ulimit -f 1; exec \"$0\" \"$@\""
        r = subprocess.run(["bash", "-c", cmd, PASFMT] + [os.path.join(d, nm) for nm in names], cwd=root, stdout=subprocess.PIPE, stderr=subprocess.PIPE, env=e, timeout=120)
        what = f"file-size limit 1 KiB, small={sorted(small)} big={sorted(big)} threads={sc['threads']}"
        if r.returncode == 0:
            problems.append({"clause": "exit_status", "detail": f"exit status 0 although the results of {sorted(big)} cannot be written ({what}); stderr {r.stderr[-200:].decode(errors='replace')}"})
        for nm, (inp, f) in small.items():
            now = open(os.path.join(d, nm), "rb").read()
            if now != f:
                problems.append({"clause": "batch_equals_solo", "detail": f"{nm}: holds {len(now)} bytes, alone it gives {len(f)} ({what})"})
        return problems, False
    finally:
        shutil.rmtree(root, ignore_errors=True)


def run_batch_scenario(idx, sc, texts):
    """sc: {n, threads, fail: [kinds], seed}: a directory of files is formatted in one invocation; every file must end
    up as when formatted alone; returns (problems, skipped, trace_events)"""
    root = tempfile.mkdtemp(prefix=f"b{idx}_", dir=CLI_ROOT)
    problems, events = [], []
    try:
        rnd = random.Random(sc["seed"])
        d = os.path.join(root, "src")
        os.makedirs(d)
        files = {}
        n = sc["n"]
        fails = set()
        prev_t = None
        cfg_args = [a for kv in sc.get("cfg", {}).items() for a in ("-C", f"{kv[0]}={kv[1]}")]
        for k in range(n):
            name = f"u{k:03d}.pas"
            p = os.path.join(d, name)
            kind = "ok"
            if k < len(sc["fail"]):
                kind = sc["fail"][k]
            t = rnd.choice(texts)
            if k % 3 == 2 and prev_t is not None:
                t = prev_t + "\n" + t         # files that share a long prefix with their neighbour (state keyed by position would collide)
            prev_t = t
            reps = rnd.choice([1, 1, 1, 2, 5, 40]) if k % 2 == 0 else 1          # long files next to short ones
            body = ("\n".join([t] * reps)).encode()
            if rnd.random() < 0.2:
                body = b""
            if sc.get("mode") == "stdout":
                body = ("\n".join([t] * rnd.choice([1, 5, 40, 80, 200]))).encode()
            enc = rnd.choice(["utf8", "utf8", "utf8bom", "utf16le", "utf8bom_feff"]) if sc.get("mode") != "stdout" else "utf8"
            if sc.get("big") and k == 0:
                body = body * (sc["big"] // (len(body) + 1) + 1)
                enc = "utf8"
            if enc == "utf8bom":
                body = b"\xef\xbb\xbf" + body
            elif enc == "utf8bom_feff":
                body = b"\xef\xbb\xbf\xef\xbb\xbf" + body            # the text itself starts with U+FEFF
            elif enc == "utf16le":
                body = b"\xff\xfe" + body.decode().encode("utf-16-le")
            if kind == "undecodable":
                body = b"x := 1;\x80\xc3(" + body[:50]
                fails.add(name)
            if kind == "missing":
                fails.add(name)
                files[name] = None
                continue
            files[name] = body
            with open(p, "wb") as fh:
                fh.write(body)
        # shuffle names on disk order is the walker's business; explicit path list in random order gives another split
        paths = [os.path.join(d, nm) for nm in files]
        rnd.shuffle(paths)
        trace = os.path.join(root, "trace.ndjson")
        env = {"RAYON_NUM_THREADS": str(sc["threads"]), "PASFMT_VERIF_TRACE": trace}
        mode_args = ["--mode", "stdout"] if sc.get("mode") == "stdout" else []
        # a directory argument followed by explicit paths inside it: a file the walk does not pick up (other extension) and,
        # now and then, a missing one
        extra_args = []
        if sc.get("extra") and sc.get("mode") != "stdout":
            t = rnd.choice(texts)
            inc = os.path.join(d, "inc")
            os.makedirs(inc, exist_ok=True)
            nm = "inc/defs.inc"
            files[nm] = (t + "\n").encode()
            with open(os.path.join(d, nm), "wb") as fh:
                fh.write(files[nm])
            extra_args.append(os.path.join(d, nm))
            if sc["extra"] == "missing":
                files["inc/gone.pas"] = None
                fails.add("inc/gone.pas")
                extra_args.append(os.path.join(d, "inc/gone.pas"))
        if sc.get("loglevel"):
            mode_args = mode_args + ["--log-level", sc["loglevel"]]
        pre_args = []
        if sc.get("badglob"):
            # a pattern the glob library rejects, in front of the real paths: an error for this argument, the others are handled
            pre_args = [sc["badglob"]]
            fails.add(sc["badglob"])
        if sc.get("fd_limit"):
            # more files than the process may hold open at once
            e = dict(os.environ); e.pop("PASFMT_VERIF_TRACE", None); e.update(env)
            r = subprocess.run(["bash", "-c", f"ulimit -n {int(sc['fd_limit'])}; exec \"$0\" \"$@\"", PASFMT] + cfg_args + mode_args + pre_args + [d] + extra_args, cwd=root, stdout=subprocess.PIPE, stderr=subprocess.PIPE, env=e, timeout=300)
            rc, out, err = r.returncode, r.stdout, r.stderr
        else:
            rc, out, err = run_bin(cfg_args + mode_args + pre_args + (paths if sc.get("explicit", True) else [d]) + extra_args, root, env=env)
        what = f"n={n} threads={sc['threads']} failing={sorted(fails)}" + (" mode=stdout" if sc.get("mode") == "stdout" else "") + (f" cfg={sc['cfg']}" if cfg_args else "") \
            + (f" --log-level {sc['loglevel']}" if sc.get("loglevel") else "") + (f" open-file limit {sc['fd_limit']}" if sc.get("fd_limit") else "")
        if -64 <= rc < 0 and b"overflowed its stack" in err:
            # the process died of a stack overflow: worker threads have 2 MiB of stack (the main thread 8 MiB), so a deeply
            # nested file that standard input copes with can overflow when it is given by path. When one of the files does
            # the same to a process that formats it ALONE with a stack of that size, the batch is no different from the file
            # alone as far as that file goes - the other files were not formatted, which is known finding F23 seen through
            # C18 (identified by that file)
            cands = sorted(((nm, body) for nm, body in files.items() if body is not None and len(body) > 2000), key=lambda x: -len(x[1]))[:12]
            for nm, body in cands:
                solo = os.path.join(root, "solo.pas")
                with open(solo, "wb") as fh:
                    fh.write(body)
                e = dict(os.environ); e.pop("PASFMT_VERIF_TRACE", None); e["RAYON_NUM_THREADS"] = "1"
                try:
                    r1 = subprocess.run(["bash", "-c", "ulimit -s 2048; exec \"$0\" \"$@\"", PASFMT] + cfg_args + ["--mode", "stdout", solo], cwd=root, stdout=subprocess.DEVNULL, stderr=subprocess.PIPE, env=e, timeout=300)
                except subprocess.TimeoutExpired:
                    continue
                if -64 <= r1.returncode < 0 and b"overflowed its stack" in r1.stderr:
                    problems.append({"clause": "exit_status", "detail": f"the batch died of a stack overflow (signal {-rc}); {nm} ({len(body)} bytes) does the same to a process that formats it alone with a stack of 2 MiB ({what}) [site: a file that overflows the stack when formatted alone takes the batch with it]"})
                    return problems, False, []
        if (rc != 0) != bool(fails):
            problems.append({"clause": "exit_status", "detail": f"exit status {rc} but the failing files are {sorted(fails)} ({what}); stderr {err[-300:].decode(errors='replace')}"})
        if sc.get("mode") == "stdout":
            # stdout mode: the result of a file is its block `path:\n<text>\n`; the output must be the blocks of the good files in
            # some order, each in one piece, and no file may change
            blocks = {}
            for nm, body in files.items():
                if body is None or nm in fails:
                    continue
                rc1, text = oracle(body, cfg_args)
                if rc1 != 0:
                    return [], True, []
                blocks[nm] = os.path.join(d, nm).encode() + b":\n" + text + b"\n"
            pos, remaining = 0, dict(blocks)
            while pos < len(out):
                hit = next((nm for nm, b in remaining.items() if out.startswith(b, pos)), None)
                if hit is None:
                    problems.append({"clause": "stdout_blocks", "detail": f"at byte {pos} of {len(out)} the output is not the start of any remaining file's block `path:<LF>text<LF>` ({len(remaining)} of {len(blocks)} blocks remaining): {out[pos:pos + 60]!r} ({what})"})
                    break
                pos += len(remaining.pop(hit))
            else:
                if remaining:
                    problems.append({"clause": "stdout_blocks", "detail": f"no block was printed for {sorted(remaining)[:5]} ({what})"})
            for nm, body in files.items():
                if body is not None and open(os.path.join(d, nm), "rb").read() != body:
                    problems.append({"clause": "only_files_mode_writes", "detail": f"{nm} was modified in stdout mode ({what})"})
            events = [json.loads(l) for l in open(trace) if l.strip()] if os.path.exists(trace) else []
            return problems, False, events
        for nm, body in files.items():
            p = os.path.join(d, nm)
            if body is None:
                if os.path.exists(p):
                    problems.append({"clause": "failing_untouched", "detail": f"{nm} came into existence ({what})"})
                continue
            now = open(p, "rb").read()
            if nm in fails:
                if now != body:
                    problems.append({"clause": "failing_untouched", "detail": f"{nm}: an undecodable file was modified ({what})"})
                continue
            # alone: the same binary on the same bytes, one invocation for this file only
            solo_dir = os.path.join(root, "solo")
            os.makedirs(solo_dir, exist_ok=True)
            sp = os.path.join(solo_dir, nm)
            os.makedirs(os.path.dirname(sp), exist_ok=True)
            with open(sp, "wb") as fh:
                fh.write(body)
            rc1, _, e1 = run_bin(cfg_args + [sp], root, env={"RAYON_NUM_THREADS": "1"})
            solo = open(sp, "rb").read()
            if rc1 != 0:
                return [], True, []
            if now != solo:
                problems.append({"clause": "batch_equals_solo", "detail": f"{nm} ({len(body)} bytes): the batch left {len(now)} bytes, alone it gives {len(solo)} bytes ({what})"})
        if os.path.exists(trace):
            events = [json.loads(l) for l in open(trace) if l.strip()]
        return problems, False, events
    finally:
        shutil.rmtree(root, ignore_errors=True)


# ------------------------------------------------------------------------------------------------ exit status (CliExit.tla)

def run_exit_scenario(idx, sc):
    """sc: {fails, goods, kind, nonzero} from CliExit.tla: `fails` failing paths of one kind and `goods` succeeding ones in one
    invocation (through --files-from); the status must be non-zero iff fails > 0, the good files must be handled normally"""
    root = tempfile.mkdtemp(prefix=f"x{idx}_", dir=CLI_ROOT)
    problems = []
    try:
        d = os.path.join(root, "src")
        os.makedirs(d)
        kind, fails, goods = sc["kind"], sc["fails"], sc["goods"]
        src = b"procedure   Foo ;\nbegin\n  X:=1 ;\nend ;\n"
        rc0, formatted = oracle(src)
        if rc0 != 0:
            return [], True
        mode = "check" if kind == "misformatted_check" else "files"
        paths, good_paths = [], []
        for k in range(fails):
            p = os.path.join(d, f"bad{k:06d}.pas")
            if kind == "undecodable":
                with open(p, "wb") as fh:
                    fh.write(b"x := 1;\x80\xc3(")
            elif kind == "misformatted_check":
                with open(p, "wb") as fh:
                    fh.write(src)
            paths.append(p)
        for k in range(goods):
            p = os.path.join(d, f"good{k}.pas")
            with open(p, "wb") as fh:
                fh.write(formatted if mode == "check" else src)
            good_paths.append(p)
            paths.insert((k * 7919 + idx) % (len(paths) + 1), p)
        lst = os.path.join(root, "list.txt")
        with open(lst, "w") as fh:
            fh.write("\n".join(paths) + "\n")
        if not paths:
            return [], True
        rc, out, err = run_bin(["--mode", mode, "--files-from", lst], root, timeout=600,
                               env={"RAYON_NUM_THREADS": str([1, 4, 16][idx % 3])})
        what = f"{fails} failing paths ({kind}), {goods} good ones, mode={mode}"
        if (rc != 0) != sc["nonzero"]:
            problems.append({"clause": "exit_status", "detail": f"exit status {rc} with {what}"})
        for p in good_paths:
            if open(p, "rb").read() != formatted:
                problems.append({"clause": "failing_untouched" if mode == "check" else "files_mode_result", "detail": f"a good file does not hold the formatted result after a run with {what}"})
                break
        return problems, False
    finally:
        shutil.rmtree(root, ignore_errors=True)


def exit_scenarios(c, tier):
    """MC of CliExit (and its bug instance), then every final state replayed on the binary; returns (ran, problems)"""
    c.mc("CliExit", "CliExit_bug.cfg", expect_violation=True, workers=2, timeout=600)
    r = c.mc("CliExit", "CliExit.cfg" if tier == "quick" else "CliExit_wide.cfg", workers=4, timeout=1800)
    seen, scen = set(), []
    for t, p in r["replay"]:
        k = json.dumps(p, sort_keys=True)
        if k not in seen:
            seen.add(k)
            scen.append(p)
    res = run_scenarios(run_exit_scenario, scen, threads=4)
    out, ran = [], 0
    for sc, (problems, skipped) in zip(scen, res):
        if skipped:
            continue
        ran += 1
        for p in problems:
            out.append((sc, p))
    return ran, out


# ------------------------------------------------------------------------------------------------ C01 through the CLI

def _decode_by_bom(b):
    if b.startswith(b"\xef\xbb\xbf"):
        return b[3:].decode("utf-8")
    if b.startswith(b"\xff\xfe"):
        return b[2:].decode("utf-16-le")
    if b.startswith(b"\xfe\xff"):
        return b[2:].decode("utf-16-be")
    return b.decode("utf-8")


def _nonblank(t):
    return "".join(ch for ch in t if not (ord(ch) <= 0x20 or ch == "\u3000")).lower()


def run_nonblank_batch(idx, sc, texts):
    """sc: {n, big, seed}: files of several sizes and BOM forms formatted in ONE invocation on one worker thread; every file must
    keep its non-blank characters (C01 as the command line delivers it: nothing of another file, no character of the text lost)"""
    root = tempfile.mkdtemp(prefix=f"a{idx}_", dir=CLI_ROOT)
    problems = []
    try:
        rnd = random.Random(sc["seed"])
        before, paths = {}, []
        for k in range(sc["n"]):
            t = rnd.choice(texts)
            body = t
            if k == 0 and sc.get("big"):
                body = (t + "\n") * (sc["big"] // (len(t) + 1) + 1)
            form = ["utf8", "utf8bom", "utf8bom_feff", "utf16le", "utf16be_feff"][(k + idx) % 5] if k > 0 else "utf8"
            raw = {"utf8": body.encode(), "utf8bom": b"\xef\xbb\xbf" + body.encode(), "utf8bom_feff": b"\xef\xbb\xbf" + ("\ufeff" + body).encode(),
                   "utf16le": b"\xff\xfe" + body.encode("utf-16-le"), "utf16be_feff": b"\xfe\xff" + ("\ufeff" + body).encode("utf-16-be")}[form]
            p = os.path.join(root, f"n{k:02d}.pas")
            with open(p, "wb") as fh:
                fh.write(raw)
            before[p] = raw
            paths.append(p)
        rc, out, err = run_bin(paths, root, env={"RAYON_NUM_THREADS": "1"}, timeout=300)
        what = f"{sc['n']} files in one invocation, one thread, first file {len(before[paths[0]])} bytes"
        if rc != 0:
            return [], True
        for p in paths:
            now = open(p, "rb").read()
            try:
                a, b = _nonblank(_decode_by_bom(before[p])), _nonblank(_decode_by_bom(now))
            except UnicodeDecodeError:
                problems.append({"clause": "sequence", "detail": f"{os.path.basename(p)}: the result is not decodable in the encoding of its byte-order mark ({what})"})
                continue
            if a != b:
                i = next((k for k in range(min(len(a), len(b))) if a[k] != b[k]), min(len(a), len(b)))
                problems.append({"clause": "sequence", "detail": f"{os.path.basename(p)}: {len(a)} non-blank characters became {len(b)}; first difference at {i}: {a[i:i + 12]!r} vs {b[i:i + 12]!r} ({what})"})
        return problems, False
    finally:
        shutil.rmtree(root, ignore_errors=True)


# ------------------------------------------------------------------------------------------------ C03 through the CLI

def run_idem_scenario(idx, sc):
    """sc: {text, option, codec, bom}: a file is formatted in place; --mode=check must then accept it and a second in-place run
    must not rewrite it"""
    root = tempfile.mkdtemp(prefix=f"i{idx}_", dir=CLI_ROOT)
    problems = []
    try:
        try:
            inp = bytes(sc["bom"]) + sc["text"].encode(sc["codec"])
        except UnicodeEncodeError:
            return [], True
        p = os.path.join(root, "idem.pas")
        with open(p, "wb") as fh:
            fh.write(inp)
        args = ["-C", f"encoding={sc['option']}"] + [a for kv in sc.get("cfg", {}).items() for a in ("-C", f"{kv[0]}={kv[1]}")]
        rc, out, err = run_bin(args + [p], root)
        what = f"encoding={sc['option']} bom={sc['bom']} cfg={sc.get('cfg')} text={sc['text'][:80]!r}"
        if rc != 0:
            return [], True
        first = open(p, "rb").read()
        st = (os.stat(p).st_mtime_ns, os.stat(p).st_ino)
        rc2, out2, err2 = run_bin(args + ["--mode", "check", p], root)
        if rc2 != 0:
            problems.append({"clause": "check_accepts_own_output", "detail": f"--mode=check rejects the file pasfmt has just written ({what}): {err2[-200:].decode(errors='replace')}"})
        rc3, out3, err3 = run_bin(args + [p], root)
        second = open(p, "rb").read()
        if second != first:
            problems.append({"clause": "second_run_rewrites", "detail": f"a second in-place run changed the file ({what})"})
        elif (os.stat(p).st_mtime_ns, os.stat(p).st_ino) != st:
            problems.append({"clause": "second_run_rewrites", "detail": f"a second in-place run rewrote the (identical) file ({what})"})
        return problems, False
    finally:
        shutil.rmtree(root, ignore_errors=True)


# ------------------------------------------------------------------------------------------------ C15 through the CLI

def run_cursor_scenario(idx, sc):
    """sc: {text, cursors}: `--cursor` on standard input and on a file; the command line must report exactly what the core
    computes for the same text (vh cursors), cursors beyond the end map to the end of the output, and the text is unchanged"""
    root = tempfile.mkdtemp(prefix=f"k{idx}_", dir=CLI_ROOT)
    problems = []
    try:
        text = sc["text"].encode()
        cur = ",".join(str(x) for x in sc["cursors"])
        rc0, plain = oracle(text)
        if rc0 != 0:
            return [], True
        r = run([VH, "cursors", "{}", cur], input=text.decode(), timeout=120) if False else subprocess.run([VH, "cursors", "{}", cur], input=text, stdout=subprocess.PIPE, stderr=subprocess.PIPE)
        if r.returncode != 0:
            return [], True
        want = [l for l in r.stdout.decode().splitlines() if l.startswith("CURSOR=")][0]
        what = f"--cursor {cur[:80]} text={sc['text'][:60]!r}"
        p = os.path.join(root, "k.pas")
        with open(p, "wb") as fh:
            fh.write(text)
        for how, (rc, out, err) in (("stdin", run_bin(["--cursor", cur], root, stdin=text)), ("file", run_bin(["--cursor", cur, "--mode", "stdout", p], root))):
            got = [l for l in err.decode(errors="replace").splitlines() if l.startswith("CURSOR=")]
            if rc != 0 or not got:
                problems.append({"clause": "within_output", "detail": f"{how}: exit status {rc}, no CURSOR line ({what})"})
                continue
            if how == "stdin" and out != plain:
                problems.append({"clause": "text_unchanged", "detail": f"{how}: the text differs when cursors are tracked ({what})"})
            if got[0] != want:
                problems.append({"clause": "beyond_end" if any(x > len(text) for x in sc["cursors"]) and got[0].split(",")[:-0 or None] != want.split(",") and all(a == b for a, b, x in zip(got[0][7:].split(","), want[7:].split(","), sc["cursors"]) if x <= len(text)) else "same_offset_in_token",
                                 "detail": f"{how}: the command line reports {got[0][:120]}, the core computes {want[:120]} for the same text (output length {len(plain)}) ({what})"})
        return problems, False
    finally:
        shutil.rmtree(root, ignore_errors=True)


def run_idem_batch_scenario(idx, sc, texts):
    """sc: {n, seed}: a directory is formatted in place on one worker thread; --mode=check over the directory plus one file that
    is NOT formatted must then name exactly that file; a second in-place run rewrites nothing"""
    root = tempfile.mkdtemp(prefix=f"j{idx}_", dir=CLI_ROOT)
    problems = []
    try:
        rnd = random.Random(sc["seed"])
        d = os.path.join(root, "src")
        os.makedirs(d)
        paths = []
        for k in range(sc["n"]):
            p = os.path.join(d, f"j{k:02d}.pas")
            with open(p, "wb") as fh:
                fh.write((rnd.choice(texts) + "\n").encode())
            paths.append(p)
        env = {"RAYON_NUM_THREADS": str(sc.get("threads", 1))}
        rc, out, err = run_bin(paths, root, env=env)
        if rc != 0:
            return [], True
        first = {p: open(p, "rb").read() for p in paths}
        stamps = {p: (os.stat(p).st_mtime_ns, os.stat(p).st_ino) for p in paths}
        # an unformatted file in front of, and in the middle of, the files just written
        bad = os.path.join(d, "a_unformatted.pas")
        with open(bad, "wb") as fh:
            fh.write(b"x   :=   1 ;  y:=2;\n")
        bad2 = os.path.join(d, "j03_unformatted.pas")
        with open(bad2, "wb") as fh:
            fh.write(b"begin  end ;;\n" + b"x := 1;\n" * 50)
        order = sorted(paths + [bad, bad2])
        rc2, out2, err2 = run_bin(["--mode", "check"] + order, root, env=env)
        named = set()
        for line in err2.decode(errors="replace").splitlines():
            if "CHECK:" in line and "'" in line:
                named.add(line.split("'")[1])
        what = f"{sc['n']} files written in place, then --mode=check with {sc.get('threads', 1)} thread(s)"
        wrongly = sorted(os.path.basename(x) for x in named if x not in (bad, bad2))
        if wrongly:
            problems.append({"clause": "check_accepts_own_output", "detail": f"--mode=check rejects files pasfmt has just written: {wrongly[:5]} ({what})"})
        if rc2 == 0:
            problems.append({"clause": "check_accepts_own_output", "detail": f"--mode=check exits 0 although two files are not formatted ({what})"})
        os.remove(bad); os.remove(bad2)
        rc3, out3, err3 = run_bin(paths, root, env=env)
        for p in paths:
            if open(p, "rb").read() != first[p]:
                problems.append({"clause": "second_run_rewrites", "detail": f"a second in-place run changed {os.path.basename(p)} ({what})"})
                break
            if (os.stat(p).st_mtime_ns, os.stat(p).st_ino) != stamps[p]:
                problems.append({"clause": "second_run_rewrites", "detail": f"a second in-place run rewrote the identical {os.path.basename(p)} ({what})"})
                break
        return problems, False
    finally:
        shutil.rmtree(root, ignore_errors=True)


# ------------------------------------------------------------------------------------------------ C09 through the CLI

def run_eol_scenario(idx, sc):
    """sc: {text, file_eol: lf|crlf, option: lf|crlf}: files mode must leave exactly what stdin->stdout prints, also when the
    file differs from it in nothing but its line terminators"""
    root = tempfile.mkdtemp(prefix=f"n{idx}_", dir=CLI_ROOT)
    problems = []
    try:
        args = ["-C", f"line_ending={sc['option']}"]
        rc0, canon = oracle(sc["text"].encode(), ["-C", f"line_ending={sc['file_eol']}"])
        if rc0 != 0:
            return [], True
        # the file: already formatted, with the terminators of `file_eol`
        p = os.path.join(root, "eol.pas")
        with open(p, "wb") as fh:
            fh.write(canon)
        exp = oracle(canon, args)[1]
        what = f"file terminators={sc['file_eol']} line_ending={sc['option']} text={sc['text'][:60]!r}"
        # the other two routes first (they leave the file alone): stdout mode prints the block `path:<LF>text<LF>` whose text
        # has the configured terminators, check mode says whether files mode would change the file
        rcs, outs, errs = run_bin(args + ["--mode", "stdout", p], root)
        if rcs == 0 and outs != p.encode() + b":\n" + exp + b"\n":
            body = outs[len(p) + 2:]
            problems.append({"clause": "configured_ending_everywhere", "detail": f"--mode stdout printed a text with {body.count(bytes([13, 10]))} CRLF / {body.count(bytes([10]))} LF, stdin->stdout gives {exp.count(bytes([13, 10]))} CRLF / {exp.count(bytes([10]))} LF ({what})"})
        rcc, outc, errc = run_bin(args + ["--mode", "check", p], root)
        if open(p, "rb").read() != canon:
            problems.append({"clause": "configured_ending_everywhere", "detail": f"the file changed in stdout / check mode ({what})"})
        elif (rcc != 0) != (exp != canon):
            problems.append({"clause": "configured_ending_everywhere", "detail": f"--mode check exits {rcc} but the configured terminators {'differ from' if exp != canon else 'are'} those of the file ({what})"})
        rc, out, err = run_bin(args + [p], root)
        now = open(p, "rb").read()
        if rc != 0:
            return [], True
        if now != exp:
            problems.append({"clause": "configured_ending_everywhere", "detail": f"files mode left {now.count(bytes([13, 10]))} CRLF / {now.count(bytes([10]))} LF, stdin->stdout gives {exp.count(bytes([13, 10]))} CRLF / {exp.count(bytes([10]))} LF ({what})"})
        if (sc["option"] == "crlf") != (bytes([13, 10]) in exp) and bytes([10]) in exp:
            problems.append({"clause": "configured_ending_everywhere", "detail": f"the result does not use the configured terminator ({what})"})
        return problems, False
    finally:
        shutil.rmtree(root, ignore_errors=True)
