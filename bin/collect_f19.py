#!/usr/bin/env python3
"""collect_f19.py [out-dir]: add the inputs of violations found on the UNCHANGED tree (out/C11.violations.ndjson) to the input lists of
the known findings that are identified by input: F19 (`fits_stays_fitting`) and F24 (`wider_not_more_lines` without a site).
A build-time tool: the checks never add to known_findings.json."""
import hashlib, json, sys
d = sys.argv[1] if len(sys.argv) > 1 else "/verif/out"
k = json.load(open("/verif/known_findings.json"))
for prefix, clause, want_site in (("F19", "fits_stays_fitting", None), ("F24", "wider_not_more_lines", False)):
    f = next(x for x in k["known"] if x["id"].startswith(prefix))
    have = set(f["match"]["text_sha256"])
    new = 0
    for l in open(f"{d}/C11.violations.ndjson"):
        v = json.loads(l)
        if v.get("clause") != clause or (want_site is False and "[site" in v.get("detail", "")):
            continue
        h = hashlib.sha256(v["case"]["text"].encode()).hexdigest()
        if h not in have:
            have.add(h); new += 1
            print(prefix, "new:", v["case"].get("label"), v["detail"][:100])
    f["match"]["text_sha256"] = sorted(have)
    print(prefix, new, "added;", len(have), "inputs")
json.dump(k, open("/verif/known_findings.json", "w"), indent=1, ensure_ascii=False)
