#!/usr/bin/env python3
"""collect_f19.py [out-dir]: add the inputs of violations found on the UNCHANGED tree (out/C11.violations.ndjson) to the input list of
the known finding that is identified by input: F19 (`fits_stays_fitting`, and `wider_not_more_lines` with the site "the wider
result does not fit its own width although the narrower one fits"). A build-time tool: the checks never add to known_findings.json."""
import hashlib, json, sys
d = sys.argv[1] if len(sys.argv) > 1 else "/verif/out"
k = json.load(open("/verif/known_findings.json"))
f = next(x for x in k["known"] if x["id"].startswith("F19"))
have = set(f["match"]["text_sha256"])
new = 0
for l in open(f"{d}/C11.violations.ndjson"):
    v = json.loads(l)
    if not (v.get("clause") == "fits_stays_fitting" or (v.get("clause") == "wider_not_more_lines" and "the wider result does not fit its own width although the narrower one fits" in v.get("detail", ""))):
        continue
    h = hashlib.sha256(v["case"]["text"].encode()).hexdigest()
    if h not in have:
        have.add(h); new += 1
        print("F19 new:", v["case"].get("label"), v["detail"][:100])
f["match"]["text_sha256"] = sorted(have)
print("F19", new, "added;", len(have), "inputs")
# F27: first clause without a site (identified by input as well)
g = next(x for x in k["known"] if x["id"].startswith("F27"))
have = set(g["match"]["text_sha256"]); new = 0
for l in open(f"{d}/C11.violations.ndjson"):
    v = json.loads(l)
    if v.get("clause") == "fits_narrower_same_result" and "[site" not in v.get("detail", ""):
        h = hashlib.sha256(v["case"]["text"].encode()).hexdigest()
        if h not in have:
            have.add(h); new += 1
            print("F27 new:", v["case"].get("label"), v["detail"][:100])
g["match"]["text_sha256"] = sorted(have)
print("F27", new, "added;", len(have), "inputs")
json.dump(k, open("/verif/known_findings.json", "w"), indent=1, ensure_ascii=False)
