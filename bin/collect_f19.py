#!/usr/bin/env python3
"""collect_f19.py [out-dir]: add the inputs of `fits_stays_fitting` violations found on the UNCHANGED tree (out/C11.violations.ndjson) to the
input list of known finding F19 (a build-time tool: the checks never add to known_findings.json)."""
import hashlib, json, sys
d = sys.argv[1] if len(sys.argv) > 1 else "/verif/out"
k = json.load(open("/verif/known_findings.json"))
f19 = next(f for f in k["known"] if f["id"].startswith("F19"))
have = set(f19["match"]["text_sha256"])
new = 0
for l in open(f"{d}/C11.violations.ndjson"):
    v = json.loads(l)
    if v.get("clause") == "fits_stays_fitting":
        h = hashlib.sha256(v["case"]["text"].encode()).hexdigest()
        if h not in have:
            have.add(h); new += 1
            print("new:", v["case"].get("label"), v["detail"], v["case"].get("cfg"))
f19["match"]["text_sha256"] = sorted(have)
json.dump(k, open("/verif/known_findings.json", "w"), indent=1, ensure_ascii=False)
print(new, "added;", len(have), "inputs")
