#!/usr/bin/env python3
"""Extract the repository's data-test programs into /verif/seeds/seeds.ndjson (one JSON object per line).
Seeds are *inputs* for the checks, not code under test; they are committed so that checks do not depend on
/repo/core/datatests/generated (a build artefact)."""
import json, os, sys, re
root = sys.argv[1] if len(sys.argv) > 1 else '/repo/core/datatests/generated'
SEP = "!#################################!"
def trim(s):
    lines = s.split('\n')
    if lines[0].strip() != '' : return s
    body = lines[1:]
    first = next((l for l in body if l.strip()), '')
    lead = first[:len(first)-len(first.lstrip())]
    out=[]
    for l in body:
        if l.startswith(lead): out.append(l[len(lead):])
        elif l.strip()=='' : out.append('')
        else: out.append(l.lstrip())
    return '\n'.join(out)
def wrapcol(s):
    m = re.search(r'// wrap_column=(\d+)', s)
    return int(m.group(1)) if m else 30
seen=set(); out=[]
for d,_,fs in sorted(os.walk(root)):
    for f in sorted(fs):
        p=os.path.join(d,f); rel=os.path.relpath(p,root)
        s=open(p,encoding='utf-8').read()
        if rel.startswith('optimising_line_formatter'):
            parts=s.split(SEP)
            for side,t in zip(('in','out'),parts):
                t=trim(t)
                if t.strip()=='' or t in seen: continue
                seen.add(t); out.append({'name':rel+':'+side,'wrap':wrapcol(s),'text':t})
        else:
            t=trim(s).split('\n---')[0]
            ls=[]
            for l in t.split('\n'):
                m=re.match(r'^\s*[0-9_,^ ]*\|(.*)$', l)
                ls.append(m.group(1) if m else l)
            t=re.sub(r'\{\d+\}','','\n'.join(ls))
            if t.strip()=='' or t in seen: continue
            seen.add(t); out.append({'name':rel,'wrap':120,'text':t})
with open('/verif/seeds/seeds.ndjson','w') as fh:
    for o in out: fh.write(json.dumps(o)+'\n')
print(len(out),'seeds')
