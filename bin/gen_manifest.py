#!/usr/bin/env python3
"""Writes MANIFEST.json from the table below (single source for commands and level texts)."""
import json, subprocess
HOOK_COMMITS = subprocess.check_output(["git", "-C", "/repo", "log", "--format=%h %s", "--grep=^verif hooks"]).decode().strip().splitlines()
CHECKS = {
 "C01": ("model_checking", "TLC-decided trace validation of real runs + exhaustive short token soup",
   "The non-blank character sequence (and the case clause, using the scanner's token boundaries) is evaluated by the fast monitor on every call of an exhaustive bounded input space (all token sequences of length <= 2 over a 176-token alphabet, <= 3 over 51 structural tokens; thorough: 3 over the full alphabet) plus truncated/spliced seeds and random walks under rotating configurations; the TLA+ predicate C01 of Props.tla re-decides every flagged call and a sample of all calls (TraceSession). Pipeline frame model: see DESIGN.md 6/C01.",
   "Token boundaries for the case clause come from the real scanner, which C13 checks against Lexer.tla on the same corpora. Hook data (final token table) is only used to localise."),
 "C03": ("model_checking", "history checking (format; format again): MC_MLString / MC_Comment machines formatted twice, seeds, programs derived from Grammar.tla, DirBlocks bodies, statements with several literals; relation idem decided by Session.tla; command-line histories (written in place, then checked)",
   "Idempotence is a hyper-property of the real optimiser, which is deliberately not transcribed; the check explores format^2 histories over all seed programs and generated programs under 6 (18) configurations, with the `idem` relation of Session.tla (precondition checked) re-decided by TLC on sampled and flagged histories.",
   "Well-formedness of seeds is assumed (they are the repository's own valid-code tests); one known finding (F2) is matched by call site."),
 "C04": ("model_checking", "exhaustive short token soup in watchdog-supervised worker processes (release + overflow-checked builds); progress models in TLC",
   "Every token sequence up to the stated length is run with cursor lists in two builds under a watchdog; hangs, aborts and crashes are observations. The machines whose termination is model-checked (scanner progress, pass iterator) are listed in the evidence.",
   "Wall-clock is used only as the watchdog; the polynomial clause is decided on work counters (passes, search iterations) reported by hooks."),
 "C08": ("model_checking", "TLC-decided whitespace predicates on the final token table of real runs + exhaustive short token soup",
   "WhitespaceViolations of Props.tla (trailing blanks, one space, no tab, blank-line runs, leading blank line, whole indentation units, end-of-file terminator for well-formed input) evaluated on every call of the C01 corpus by the fast monitor and re-decided by TLC on flagged and sampled calls.",
   "Blanks at line ends are space and tab; ignored (verbatim / asm) tokens are excluded using the final table's ignored flags, which C07 checks against Toggle.tla. One known finding (F1)."),
 "C09": ("model_checking", "history checking (lf vs crlf configuration; LF vs CRLF input) decided by Session.tla + emitted-break predicate",
   "Relations lecfg and lein of Session.tla with their preconditions (NoVerbatimLineSpanning evaluated in TLA+ on the scanned input) and the per-call emitted-break predicate (between tokens and inside re-indented strings).",
   "One known finding (F3)."),
 "C10": ("model_checking", "rendering arithmetic of Props.tla (C10_Units) + tabs/spaces histories over the (tab_width, continuation_indents) grid",
   "With wrap_column = 2^32-1 the tabs result with leading tabs expanded must equal the spaces result, and each line's indentation must equal (levels + ci*continuations) units on the final table.",
   "levels / continuations are read from the final token table (hook). Known finding F4 (u8 saturation)."),
 "C11": ("exploration", "history checking over width pairs (own-output critical widths), relation `width` of Session.tla",
   "The three clauses are evaluated for every pair W1 < W2 of {10,20,40,80,120,200} and the widths around each program's own line lengths.",
   "Line length is measured in bytes and code points (both must fit for the antecedent). Known finding F5 (unfittable widths)."),
 "C13": ("model_checking", "TLC exhaustive scanning of all short texts (Lexer.tla) replayed into the real scanner + trace validation of real token lists + length/alignment grid on all three identifier routines",
   "MC_Lexer enumerates every text of <= N code points over 6 alphabets; each behaviour is replayed and must match exactly (the model is the property). Real token lists of long inputs are validated against the unbounded Lexer.tla by TLC; the grid carries generator-known expectations and drives generic / avx2 / dispatched routines through a hook.",
   "A CPU without AVX2 cannot be simulated; the generic routine is called directly."),
 "C14": ("model_checking", "C14_Violations of Props.tla on the public parser's result over exhaustive short token soup and seeds",
   "Ordering / coverage / exactly-once clauses on every input of the C01 corpus, parent and Eof clauses on well-formed inputs; TLC re-decides flagged and sampled calls.",
   "Pass-iterator and line-builder models: see evidence (added when present)."),
 "C15": ("model_checking", "cursor clauses of Props.tla / Session.tla on every cursor offset class, release and overflow-checked builds",
   "Cursor lists (every token start/end, inside blanks and multi-line tokens, 0, end, beyond) tracked on seeds, soup, truncations and walks; clauses text-unchanged, within-output-on-boundary, same-offset-in-unchanged-token, beyond-end.",
   "Token correspondence input/output comes from the final token table (hook)."),
}
CHECKS.update({
 "C02": ("model_checking", "TLC-decided re-scan equality (C02_Violations) on programs derived by TLC from Grammar.tla in 7 layout families, scanner cross-checked against Lexer.tla in the same traces",
   "Programs are derivations of Grammar.tla (Gen.tla, TLC simulation) rendered with comments in every placement class, conditional directives around whole statements/declarations, tight/one-line/all-breaks/CRLF layouts; scan(input) = scan(output) up to the documented normalisations.",
   "Both scans use the real scanner; C13_Agrees (Lexer.tla) is evaluated by TLC on the sampled inputs and outputs of the same run."),
 "C05": ("model_checking", "model-based testing: structure marks emitted by the Gen.tla derivation are checked on the re-scanned output (C05_Violations)",
   "The generator knows the first token of every statement / declaration member / closer and which construct opens its block; own-line and relative-depth expectations are evaluated for 6 layouts x 6 (begin_style, width, indentation) configurations.",
   "Expectation table calibrated on the unchanged tree; else-if chains and case arms carry no expectation; known finding F9 (inline anonymous routines)."),
 "C06": ("model_checking", "history checking: re-layouts of generated programs; IsRelayout precondition and equality decided by Session.tla",
   "Each program x decoration is rendered with 3-6 further spacings (one line, random gaps incl. zero width, all breaks, CRLF+tabs); outputs must be identical.",
   "Known finding F8 (space after a literal copied from the input) is excluded from the random layouts and probed separately."),
 "C07": ("model_checking", "regions computed by Toggle.tla's recogniser from the scanned input must be reproduced byte for byte, and exactly those tokens (plus asm lines) may be verbatim",
   "Regions between any two tokens of generated programs with 12 off / 5 on spellings incl. near misses, toggles in token soup and random walks.",
   "asm instruction lines are identified by the parser's line types (hook)."),
 "C12": ("model_checking", "MLString.tla value / indentation rule evaluated per literal (C12_Violations) on generated programs and seeds",
   "Literals with 3 and 5 quotes, several bodies and indentations, in every expression position of the grammar, under 5 configurations.",
   "Literal correspondence by ordinal among multi-line literals of input and output."),
 "C16": ("model_checking", "CliModes.tla checked exhaustively by TLC; every final state replayed on the real binary in scratch directories",
   "3 files x 8 content classes x 3 modes x 5 path forms with all per-file step orders; bug switches NO_SETLEN / NO_SEEK demonstrate non-vacuity; scenarios compare bytes, mtime/inode, exit status and stdout.",
   "format(content) is the same binary's stdin->stdout result, as the property defines it."),
 "C17": ("model_checking", "CliEnc.tla (UTF-8 / UTF-16 defined in TLA+) enumerates texts x stored forms x options x damages; bytes compared with the real binary (file mode and pipe)",
   "The model computes the input bytes and the expected output bytes; legacy code pages and CJK encodings are covered with longer programs (codec tables trusted).",
   "native encoding = UTF-8 on this platform."),
 "C18": ("model_checking", "CliWorkers.tla: all interleavings (TLC); real batches compared file by file with solo runs; worker events validated by TraceWorkers.tla",
   "NoStaleBytes / BatchEqualsSolo / ExitStatus hold on the model for every schedule; the NO_CLEAR switch yields the stale-buffer counterexample; recorded buffer lengths of real runs must satisfy the same invariant.",
   "Real thread-pool schedules are sampled."),
 "C19": ("model_checking", "CliConfig.tla checked exhaustively; stratified sample of final states replayed on the real binary",
   "Ancestor walk, --config-file kinds, -C precedence (last wins), unknown keys and ill-typed values, error before any file is touched, equal effective configuration = equal bytes.",
   "Three options (wrap_column, begin_style, use_tabs) stand for all; the probe program is sensitive to each."),
})
NA = {
}
ALL = [f"C{n:02d}" for n in range(1, 20)]
m = {
 "version": 1,
 "setup_cmd": "cd /verif/harness && cargo build --release --offline && cargo build --profile checked --offline && cd /verif/spec && for f in *.tla; do tla-sany $f >/dev/null || exit 1; done",
 "hooks": {
   "guard": "cargo feature `verif_hooks` (crates pasfmt-core, pasfmt-orchestrator, pasfmt); off by default",
   "enable": "the harness depends on the /repo crates with features=[\"verif_hooks\"]; the CLI is built with `cargo build --release -p pasfmt --features verif_hooks --target-dir /verif/target/cli`",
   "baseline_off_cmd": "cd /repo && cargo nextest run --workspace --no-fail-fast --test-threads 8 --offline",
   "source_commits": [l.split()[0] for l in HOOK_COMMITS],
   "add_only": True,
 },
 "engines": [
   {"name": "spec", "path": "/verif/spec", "serves_properties": ALL, "kind_free_text": "TLA+ specification (machine specs, Props/Session predicates, trace specs) checked with TLC"},
   {"name": "vh", "path": "/verif/harness", "serves_properties": ALL, "kind_free_text": "Rust conformance harness: replays TLC behaviours into the real code, records sessions of real runs for TLC, fast pre-filter monitors"},
 ],
 "checks": [],
 "not_applicable": [],
 "notes": "Exit 2 = tool error (never a verdict). Known findings: /verif/known_findings.json.",
}
for pid in ALL:
    if pid in CHECKS:
        cat, tech, text, note = CHECKS[pid]
        kf = [f["id"].split("-")[0] for f in json.load(open("/verif/known_findings.json"))["known"] if f["property"] == pid]
        note = note + " The corpus and the clauses of the last run are described in the evidence file (`coverage.rule`); DESIGN.md section 0 lists what each round of seeded changes added." \
            + (" Known findings matched for this property: " + ", ".join(sorted(set(kf), key=lambda x: int(x[1:]))) + " (known_findings.json)." if kf else "")
        m["checks"].append({
            "property_id": pid,
            "quick_cmd": f"python3 bin/check --property {pid} --tier quick",
            "thorough_cmd": f"python3 bin/check --property {pid} --tier thorough",
            "evidence_file": f"/verif/evidence/{pid}.json",
            "replay_cmd_template": f"python3 bin/check --property {pid} --replay {{path}}",
            "engine": "spec+vh",
            "level_claimed": {"category": cat, "text": text, "design_ref": f"DESIGN.md section 6, {pid}"},
            "level_note": note,
            "technique": tech,
        })
    else:
        m["not_applicable"].append({"property_id": pid, "reason": NA.get(pid, "check not built yet in this session (work in progress; the specification does apply, see DESIGN.md section 6)")})
json.dump(m, open("/verif/MANIFEST.json", "w"), indent=1)
print(len(m["checks"]), "checks", len(m["not_applicable"]), "n/a")
