#!/usr/bin/env python3
"""update_baselines.py [evidence-dir]: record, per property and tier, how much the checks evaluate on the unchanged tree
(evidence/*.json of a run at the default seed) in baselines.json; Check.finish compares later runs with it."""
import glob, json, os, sys
d = sys.argv[1] if len(sys.argv) > 1 else "/verif/evidence"
p = "/verif/baselines.json"
b = json.load(open(p)) if os.path.exists(p) else {}
for f in sorted(glob.glob(os.path.join(d, "C*.json"))):
    e = json.load(open(f))
    if e.get("seed", 1) != 1 or e.get("violations"):
        continue
    c = e["coverage"]
    b[f"{e['property_id']}:{e['tier']}"] = {"distinct_nontrivial": c.get("distinct_nontrivial", 0), "traces_validated_against_impl": c.get("traces_validated_against_impl", 0),
                                            "evaluations": c.get("evaluations", 0)}
json.dump(b, open(p, "w"), indent=1, sort_keys=True)
print(len(b), "entries")
