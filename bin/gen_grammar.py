#!/usr/bin/env python3
"""Writes spec/Grammar.tla from the production table below (a Delphi grammar with structure marks).

Notation of a production body (space separated):
   'text'   terminal token (spelled exactly as it is emitted)
   Name     non-terminal
   @S @D    start of a statement / declaration-section member: emits a mark for the NEXT token
            (expectation: first on its line, one unit deeper than the line of the enclosing block's opener)
   @R       start of a registered construct (its first token gets a key, no expectation of its own)
   @A       like @R, for the `begin` of an anonymous routine (which the formatter may keep on its parent's line)
   @T       like @R, for an item of a declaration part (routine header, section keyword, body `begin`): expectation when
            it stands at file level: first on its line, not indented
   @.       end of the construct started by the matching @S / @D / @R
   @{ @}    open / close a block whose opener is the construct that is current at '@{'
   @C       the next token is a block closer (expectation: first on its line, at the opener's indentation)
   @B       the next token is the `begin` of a control-flow body (expectation under begin_style=always_wrap only:
            first on its line, at the indentation of the controlling statement)
The first alternative(s) listed under MIN are the ones used when the derivation budget is exhausted.
"""
import re, sys

G = {}
MIN = {}


TOK = re.compile(r"'(?:[^']|'')*'|@\S+|\w+")


def split(a):
    toks = TOK.findall(a)
    assert "".join(toks).replace(" ", "") == a.replace(" ", ""), (a, toks)
    return toks


IDENT_RULES = set()


def rule(nt, alts, mins=None, ident=False):
    G[nt] = [split(a) for a in alts]
    MIN[nt] = [split(a) for a in (mins if mins is not None else alts[:1])]
    if ident:
        IDENT_RULES.add(nt)


# ------------------------------------------------------------------ start symbols
rule("File", ["UnitFile", "ProgramFile", "Fragment", "Fragment", "Fragment"], ["Fragment"])
rule("Fragment", ["TopStmtList", "RoutineImpl", "DeclSection DeclSections", "RoutineImpl RoutineImpl", "TypeSection",
                  # several routines and a type section AFTER them (state of the parser carried from one routine to the next declarations)
                  "RoutineImpl RoutineImpl RoutineImpl TypeSection", "BodylessRoutine RoutineImpl TypeSection RoutineImpl"], ["TopStmtList"])
# statements at file level (as in the repository's data tests): no inline `var` / `const`, which would open a section there
rule("TopStmtList", ["", "TopStmt ';' TopStmtList", "TopStmt ';' TopStmtList", "TopStmt"], [""])
rule("TopStmt", ["@S TopStmtBody @."])
rule("TopStmtBody", ["Assign", "Assign", "CallStmt", "CallStmt", "IfStmt", "CaseStmt", "ForStmt", "WhileStmt", "RepeatStmt", "TryStmt",
                     "WithStmt", "RaiseStmt", "InheritedStmt", "Compound", "'exit'", "'goto' Ident"], ["Assign", "CallStmt"])
# anonymous routines with parameter lists whose body STARTS with each kind of structured statement (start symbol of Gen_anon.cfg)
rule("AnonTop", ["AnonTopStmt ';' AnonTop", "AnonTopStmt ';'", "AnonTopStmt ';' TopStmt ';'"], ["AnonTopStmt ';'"])
rule("AnonTopStmt", ["@S Ident ':=' AnonRoutineP @.", "@S Ident '(' AnonRoutineP ')' @.", "@S Ident '(' Expr ',' AnonRoutineP ')' @.", "@S Designator '.' Ident '(' AnonRoutineP ',' Expr ')' @.",
                     # several anonymous routines in one statement (the later ones with local declarations)
                     "@S Ident '(' AnonRoutine ',' AnonRoutineP ')' @.", "@S Ident '(' AnonRoutineP ',' AnonRoutineP ',' AnonRoutine ')' @."])
rule("AnonRoutineP", ["'procedure' '(' Params ')' @A 'begin' @{ AnonFirst ';' StmtList @C 'end' @} @.",
                      "'function' '(' Params ')' ':' Type @A 'begin' @{ AnonFirst ';' StmtList @C 'end' @} @.",
                      "'procedure' '(' Params ')' AnonVarSection @A 'begin' @{ AnonFirst ';' StmtList @C 'end' @} @."])
rule("AnonFirst", ["@S IfStmt @.", "@S IfStmt @.", "@S CaseStmt @.", "@S ForStmt @.", "@S WhileStmt @.", "@S TryStmt @.", "@S RepeatStmt @.", "@S WithStmt @."], ["@S IfStmt @."])
# state carried from one routine to the declarations after it (start symbol of Gen_carry.cfg): bodies whose statements hold lone
# `<` / `>` comparisons, followed by routines with generic names, generic type declarations and attributes
rule("Carry", ["CarryRoutine CarryNext CarryNext", "CarryRoutine CarryRoutine CarryNext", "CarryRoutine CarryNext"], ["CarryRoutine CarryNext"])
rule("CarryRoutine", ["@T 'function' Ident OptParams ':' 'Boolean' ';' @{ @} @. @T 'begin' @{ CarryStmt ';' StmtList @C 'end' @} @. ';'",
                      "@T 'procedure' Ident OptParams ';' @{ @} @. @T 'begin' @{ Stmt ';' CarryStmt ';' @C 'end' @} @. ';'"])
rule("CarryStmt", ["@S 'Result' ':=' Ident '<' Ident @.", "@S Ident ':=' Ident '<' Number @.", "@S Ident ':=' '(' Ident '<' Ident ')' 'or' Ident @.", "@S Ident ':=' Ident '>' Number @.",
                   "@S 'if' Ident '<' Ident 'then' @U 'exit' @. @.", "@S 'while' Ident '<' Number 'do' @U Ident '(' ')' @. @."])
rule("CarryNext", ["@T 'procedure' TypeIdent '<' TypeIdent '>' '.' Ident OptParams ';' @{ @} @. @T 'begin' @{ StmtList @C 'end' @} @. ';'",
                   "@T 'function' TypeIdent '<' TypeIdent ',' TypeIdent '>' '.' Ident ':' Type ';' @{ @} @. @T 'begin' @{ StmtList @C 'end' @} @. ';'",
                   "@T 'type' @{ @D TypeIdent '<' TypeParams '>' '=' StructType ';' @. @} @.", "RoutineImpl", "CarryRoutine"])
rule("UnitFile", ["'unit' QualIdent ';' 'interface' OptUses IntfDecls 'implementation' OptUses ImplDecls UnitEnd"])
rule("UnitEnd", ["'end' '.'", "@R 'initialization' @{ StmtList @} @. 'end' '.'",
                 "@R 'initialization' @{ StmtList @} @. @R 'finalization' @{ StmtList @} @. 'end' '.'"])
rule("ProgramFile", ["'program' Ident ';' OptUses ImplDecls @R 'begin' @{ StmtList @C 'end' @} @. '.'"])
rule("OptUses", ["", "'uses' UsesList ';'"])
rule("UsesList", ["QualIdent", "QualIdent ',' UsesList", "QualIdent 'in' String ',' UsesList"])
rule("QualIdent", ["Ident", "Ident '.' Ident", "Ident '.' Ident '.' Ident"])
rule("IntfDecls", ["", "DeclSection IntfDecls", "RoutineDecl IntfDecls"])
rule("ImplDecls", ["", "DeclSection ImplDecls", "RoutineImpl ImplDecls", "RoutineImpl ImplDecls", "BodylessRoutine RoutineImpl ImplDecls"])
# a routine without a body at the level of the implementation: `forward` / `external` with further directives around them
rule("BodylessRoutine", ["@T RoutineHead ';' 'forward' ';' @.", "@T RoutineHead ';' 'forward' ';' 'overload' ';' @.", "@T RoutineHead ';' 'overload' ';' 'forward' ';' @.",
                         "@T RoutineHead ';' 'external' String 'name' String ';' @.", "@T RoutineHead ';' 'external' String 'index' Number ';' @.",
                         "@T RoutineHead ';' 'external' String 'delayed' ';' @.", "@T RoutineHead ';' 'stdcall' ';' 'external' String ';' @.", "@T RoutineHead ';' 'external' ';' @."],
     ["@T RoutineHead ';' 'forward' ';' @."])
rule("DeclSections", ["", "DeclSection DeclSections"])

# ------------------------------------------------------------------ declaration sections
rule("DeclSection", ["ConstSection", "VarSection", "TypeSection", "ResSection"], ["VarSection"])
rule("ConstSection", ["@T 'const' @{ ConstDecl ConstDecls @} @."])
rule("ConstDecls", ["", "ConstDecl ConstDecls"])
rule("ConstDecl", ["@D Ident '=' ConstExpr ';' @.", "@D Ident ':' Type '=' ConstExpr ';' @.",
                   "@D Ident ':' 'array' '[' Number '..' Number ']' 'of' TypeName '=' '(' ExprList ')' ';' @.",
                   "@D Ident '=' ConstExpr 'deprecated' ';' @."])
rule("ResSection", ["@T 'resourcestring' @{ ResDecl ResDecls @} @."])
rule("ResDecls", ["", "ResDecl ResDecls"])
rule("ResDecl", ["@D Ident '=' String ';' @."])
rule("VarSection", ["@T 'var' @{ VarDecl VarDecls @} @.", "@T 'threadvar' @{ VarDecl VarDecls @} @."], ["@T 'var' @{ VarDecl @} @."])
rule("AnonVarSection", ["@R 'var' @{ VarDecl VarDecls @} @."])
rule("VarDecls", ["", "VarDecl VarDecls"])
rule("VarDecl", ["@D IdentList ':' Type ';' @.", "@D Ident ':' Type '=' ConstExpr ';' @.", "@D Ident ':' Type 'absolute' Ident ';' @."])
rule("IdentList", ["Ident", "Ident ',' IdentList"])
rule("TypeSection", ["@T 'type' @{ TypeDecl TypeDecls @} @."])
rule("TypeDecls", ["", "TypeDecl TypeDecls"])
rule("TypeDecl", ["@D TypeIdent '=' SimpleTypeDef ';' @.", "@D TypeIdent '=' StructType ';' @.", "@D TypeIdent '=' StructType ';' @.",
                  "@D TypeIdent '<' TypeParams '>' '=' StructType ';' @.", "@D TypeIdent '=' 'class' ';' @."],
     ["@D TypeIdent '=' SimpleTypeDef ';' @."])
rule("TypeParams", ["TypeIdent", "TypeIdent ',' TypeIdent", "TypeIdent ':' 'class'", "TypeIdent ':' TypeName ',' 'constructor'"])
rule("SimpleTypeDef", ["TypeName", "'^' TypeName", "'array' 'of' Type", "'array' '[' Number '..' Number ']' 'of' Type",
                       "'set' 'of' TypeName", "'(' IdentList ')'", "Number '..' Number", "'class' 'of' TypeName", "'type' TypeName",
                       "ProcType", "'reference' 'to' ProcType", "'packed' 'array' '[' TypeName ']' 'of' Type"], ["TypeName"])
rule("ProcType", ["'procedure' OptParams", "'function' OptParams ':' Type", "'procedure' OptParams 'of' 'object'",
                  "'function' OptParams ':' Type 'of' 'object'"], ["'procedure'"])
rule("Type", ["TypeName", "TypeName", "'string'", "GenericType", "'array' 'of' TypeName", "'^' TypeName"], ["TypeName"])
rule("GenericType", ["TypeIdent '<' TypeArgs '>'"])
rule("TypeArg", ["TypeName", "TypeName", "'string'", "GenericType"], ["TypeName"])
rule("TypeArgs", ["TypeArg", "TypeArg ',' TypeArg", "'string' ',' GenericType"], ["TypeName"])
rule("StructType", ["ClassType", "RecordType", "IntfType", "ClassType"], ["RecordType"])
rule("ClassType", ["'class' @{ Members VisSections @C 'end' @}", "'class' '(' TypeNames ')' @{ Members VisSections @C 'end' @}",
                   # (no attribute members in helpers: directly after `for T` a `[` continues the type name, as it would in Delphi)
                   "'class' 'helper' 'for' TypeName @{ HelperMembers @C 'end' @}", "'record' 'helper' 'for' TypeName @{ HelperMembers @C 'end' @}",
                   "'class' 'abstract' '(' TypeName ')' @{ VisSections @C 'end' @}", "'class' 'sealed' @{ Members @C 'end' @}"],
     ["'class' @{ @C 'end' @}"])
rule("TypeNames", ["TypeName", "TypeName ',' TypeName"])
rule("HelperMembers", ["", "Method HelperMembers", "ClassMember HelperMembers", "Property HelperMembers"], [""])
rule("RecordType", ["'record' @{ Fields @C 'end' @}", "'record' @{ Members VisSections @C 'end' @}", "'packed' 'record' @{ Fields @C 'end' @}"],
     ["'record' @{ Field @C 'end' @}"])
rule("IntfType", ["'interface' @{ IntfMembers @C 'end' @}", "'interface' '(' TypeName ')' @{ IntfMembers @C 'end' @}",
                  "'interface' '(' TypeName ')' '[' String ']' @{ IntfMembers @C 'end' @}"], ["'interface' @{ @C 'end' @}"])
rule("IntfMembers", ["", "Method IntfMembers", "Property IntfMembers"])
rule("VisSections", ["", "VisSection VisSections"])
rule("VisSection", ["@R Visibility @{ Members @} @."])
rule("Visibility", ["'private'", "'protected'", "'public'", "'published'", "'strict' 'private'", "'strict' 'protected'"], ["'public'"])
rule("Members", ["", "Member Members", "Member Members", "ClassVarSection"], [""])
# `class var` opens a section of its own: the fields that follow belong to it (so it ends a member list)
rule("ClassVarSection", ["@R 'class' 'var' @{ Field Fields @} @.", "@R 'class' 'var' @{ Field @} @."])
rule("Member", ["Field", "Method", "Method", "Property", "ClassMember", "NestedSection", "AttrMember"], ["Field"])
# an attribute stands on a line of its own in front of the member it belongs to (the member still starts its line)
rule("AttrMember", ["@D Attr @. Field", "@D Attr @. Method", "@D Attr @. @D Attr @. Method", "@D Attr @. Property"])
rule("Attr", ["'[' Ident ']'", "'[' Ident '(' String ')' ']'", "'[' Ident ',' Ident '(' Number ')' ']'", "'[' Ident '.' Ident '(' String ',' Number ')' ']'"], ["'[' Ident ']'"])
# a nested const / type section inside a class or record; it ends at the next method, property or visibility section
rule("NestedSection", ["@R 'const' @{ ConstDecl ConstDecls @} @. Method", "@R 'type' @{ TypeDecl @} @. Method"])
rule("Fields", ["Field", "Field Fields"])
rule("Field", ["@D IdentList ':' Type ';' @."])
rule("ClassMember", ["@D 'class' MethodHead ';' @.", "@D 'class' MethodHead ';' 'static' ';' @.",
                     "@D 'class' 'operator' OperatorName '(' Params ')' ':' Type ';' @.", "@D 'class' 'property' Ident ':' Type 'read' Ident ';' @."])
rule("OperatorName", ["'Add'", "'Implicit'", "'Equal'", "'In'"], ["'Add'"], ident=True)
rule("Method", ["@D MethodHead ';' @.", "@D MethodHead ';' MethodDirs @.", "@D 'constructor' Ident OptParams ';' @.",
                "@D 'destructor' Ident ';' 'override' ';' @."], ["@D MethodHead ';' @."])
rule("MethodHead", ["'procedure' Ident OptParams", "'function' Ident OptParams ':' Type"], ["'procedure' Ident"])
rule("MethodDirs", ["'virtual' ';'", "'override' ';'", "'overload' ';'", "'virtual' ';' 'abstract' ';'", "'reintroduce' ';' 'overload' ';'",
                    "'stdcall' ';'", "'inline' ';'", "'deprecated' String ';'"], ["'override' ';'"])
rule("Property", ["@D 'property' Ident ':' Type 'read' Ident ';' @.", "@D 'property' Ident ':' Type 'read' Ident 'write' Ident ';' @.",
                  "@D 'property' Ident '[' Ident ':' Type ']' ':' Type 'read' Ident 'write' Ident ';' 'default' ';' @.",
                  "@D 'property' Ident ':' Type 'index' Number 'read' Ident 'write' Ident 'default' Number ';' @."],
     ["@D 'property' Ident ':' Type 'read' Ident ';' @."])
rule("OptParams", ["", "'(' ')'", "'(' Params ')'", "'(' Params ')'"])
rule("Params", ["Param", "Param ';' Params"], ["Param"])
rule("Param", ["IdentList ':' Type", "'const' IdentList ':' Type", "'var' Ident ':' Type", "'out' Ident ':' Type",
               "Ident ':' Type '=' ConstExpr", "'const' Ident ':' 'array' 'of' 'const'", "'var' Ident"], ["Ident ':' Type"])

# ------------------------------------------------------------------ routines
rule("RoutineDecl", ["@T RoutineHead ';' @.", "@T RoutineHead ';' 'overload' ';' @.", "@T RoutineHead ';' 'external' String 'name' String ';' @."],
     ["@T RoutineHead ';' @."])
rule("RoutineHead", ["'procedure' RoutineName OptParams", "'function' RoutineName OptParams ':' Type",
                     "'constructor' Ident '.' Ident OptParams", "'destructor' Ident '.' Ident",
                     "'class' 'function' Ident '.' Ident OptParams ':' Type"], ["'procedure' Ident"])
rule("RoutineName", ["Ident", "Ident '.' Ident", "TypeIdent '<' TypeIdent '>' '.' Ident", "TypeIdent '<' TypeIdent ',' TypeIdent '>' '.' Ident"], ["Ident"])
# the local declarations (sections, nested routines) form a block of the header: nested routines are indented under it
rule("RoutineImpl", ["@T RoutineHead ';' @{ LocalDecls @} @. @T 'begin' @{ StmtList @C 'end' @} @. ';'"])
rule("LocalDecls", ["", "", "VarSection LocalDecls", "ConstSection LocalDecls", "TypeSection LocalDecls", "RoutineImpl LocalDecls"])

# ------------------------------------------------------------------ statements
rule("StmtList", ["", "Stmt ';' StmtList", "Stmt ';' StmtList", "Stmt"], [""])
rule("Stmt", ["@S StmtBody @."])
rule("UStmt", ["@U UStmtBody @."])
# (a compound statement as a body is the `@B begin` alternative of Body: `do begin` stays on the controlling line)
rule("UStmtBody", ["Assign", "Assign", "CallStmt", "CallStmt", "IfStmt", "CaseStmt", "ForStmt", "WhileStmt", "RepeatStmt", "TryStmt",
                   "WithStmt", "RaiseStmt", "InheritedStmt", "'exit'", "'break'", "'goto' Ident"], ["Assign", "CallStmt"])
rule("StmtBody", ["Assign", "Assign", "CallStmt", "CallStmt", "IfStmt", "CaseStmt", "ForStmt", "WhileStmt", "RepeatStmt", "TryStmt",
                  "WithStmt", "RaiseStmt", "InheritedStmt", "Compound", "'exit'", "'break'", "InlineVar", "'goto' Ident"],
     ["Assign", "CallStmt"])
rule("SimpleBody", ["Assign", "CallStmt", "RaiseStmt", "InheritedStmt", "'exit'"], ["CallStmt"])
rule("Assign", ["Designator ':=' Expr", "Designator ':=' Expr", "Ident ':=' Expr", "'Result' ':=' Expr", "Ident ':=' AnonRoutine", "Designator ':=' MLString",
                "'Result' ':=' Ident '<' Ident", "Ident ':=' Ident '>' Number",
                "Ident ':=' MLString '+' Expr"], ["Ident ':=' Factor0"])
rule("CallStmt", ["Ident", "Ident '(' ArgList ')'", "Designator '.' Ident '(' ArgList ')'", "Designator '.' Ident", "Ident '(' ')'"], ["Ident"])
rule("InlineVar", ["'var' Ident ':' Type ':=' Expr", "'var' Ident ':=' Expr", "'const' Ident '=' Expr"])
rule("RaiseStmt", ["'raise'", "'raise' TypeIdent '.' 'Create' '(' String ')'", "'raise' Expr 'at' Expr"], ["'raise'"])
rule("InheritedStmt", ["'inherited'", "'inherited' Ident", "'inherited' Ident '(' ExprList ')'"], ["'inherited'"])
rule("Compound", ["'begin' @{ StmtList @C 'end' @}"])
rule("Body", ["@B 'begin' @{ StmtList @C 'end' @}", "@B 'begin' @{ StmtList @C 'end' @}", "UStmt"], ["@U SimpleBody @."])
rule("BlockBody", ["@B 'begin' @{ StmtList @C 'end' @}"])
rule("ThenBody", ["BlockBody", "@U SimpleBody @."], ["@U SimpleBody @."])   # then-branch of an if that has an else (no dangling else)
# (the else branch never starts with an `if` of its own here: that is the ElseIf alternative, `else if` on one line)
rule("ElseBody", ["@B 'begin' @{ StmtList @C 'end' @}", "@B 'begin' @{ StmtList @C 'end' @}", "@U ElseStmtBody @."], ["@U SimpleBody @."])
rule("ElseStmtBody", ["Assign", "Assign", "CallStmt", "CallStmt", "CaseStmt", "ForStmt", "WhileStmt", "RepeatStmt", "TryStmt",
                      "WithStmt", "RaiseStmt", "InheritedStmt", "'exit'", "'break'", "'goto' Ident"], ["Assign", "CallStmt"])
rule("IfStmt", ["'if' Expr 'then' Body", "'if' Expr 'then' ThenBody @E 'else' ElseBody", "'if' Expr 'then' ThenBody @E 'else' ElseIf"],
     ["'if' Expr 'then' @R SimpleBody @."])
# the `if` of an `else if` is a construct of its own: chained on the `else` line or (after a comment) on its own, deeper line
rule("ElseIf", ["@R 'if' Expr 'then' ThenBody @E 'else' ElseBody @.", "@R 'if' Expr 'then' BlockBody @."], ["@R 'if' Expr 'then' BlockBody @."])
rule("CaseStmt", ["'case' Expr 'of' @{ CaseArm CaseArms @C 'end' @}", "'case' Expr 'of' @{ CaseArm CaseArms 'else' StmtList @C 'end' @}"],
     ["'case' Expr 'of' @{ CaseArm @C 'end' @}"])
rule("CaseArms", ["", "CaseArm CaseArms"])
rule("CaseArm", ["@R CaseLabels ':' ArmBody ';' @."])
rule("ArmBody", ["SimpleBody", "'begin' @{ StmtList @C 'end' @}"], ["SimpleBody"])
rule("CaseLabels", ["CaseLabel", "CaseLabel ',' CaseLabel"], ["CaseLabel"])
rule("CaseLabel", ["Number", "Ident", "Number '..' Number", "String"], ["Number"])
rule("ForStmt", ["'for' Ident ':=' Expr 'to' Expr 'do' Body", "'for' Ident ':=' Expr 'downto' Expr 'do' Body", "'for' Ident 'in' Expr 'do' Body",
                 "'for' 'var' Ident ':=' Expr 'to' Expr 'do' Body", "'for' 'var' Ident 'in' Expr 'do' Body"],
     ["'for' Ident 'in' Ident 'do' @U SimpleBody @."])
rule("WhileStmt", ["'while' Expr 'do' Body"], ["'while' Ident 'do' @U SimpleBody @."])
rule("WithStmt", ["'with' Designator 'do' Body", "'with' Designator ',' Designator 'do' Body"], ["'with' Ident 'do' @U SimpleBody @."])
rule("RepeatStmt", ["'repeat' @{ StmtList @C 'until' Expr @}"])
rule("TryStmt", ["'try' @{ StmtList @C 'finally' StmtList @C 'end' @}", "'try' @{ StmtList @C 'except' StmtList @C 'end' @}",
                 "'try' @{ StmtList @C 'except' OnHandlers @C 'end' @}", "'try' @{ StmtList @C 'except' OnHandlers 'else' StmtList @C 'end' @}"],
     ["'try' @{ StmtList @C 'finally' StmtList @C 'end' @}"])
rule("OnHandlers", ["OnHandler", "OnHandler OnHandlers"], ["OnHandler"])
rule("OnHandler", ["@S 'on' Ident ':' TypeName 'do' Body ';' @.", "@S 'on' TypeName 'do' Body ';' @."], ["@S 'on' TypeName 'do' @U SimpleBody @. ';' @."])

# ------------------------------------------------------------------ expressions
rule("Expr", ["SimpleExpr", "SimpleExpr", "SimpleExpr RelOp SimpleExpr", "SimpleExpr 'in' SetCtor", "SimpleExpr 'is' TypeName"], ["Factor0"])
rule("RelOp", ["'='", "'<>'", "'<'", "'>'", "'<='", "'>='"], ["'='"])
rule("SimpleExpr", ["Term", "Term", "Term AddOp SimpleExpr", "'-' Term", "Term AddOp Term AddOp Term"], ["Factor0"])
rule("AddOp", ["'+'", "'-'", "'or'", "'xor'"], ["'+'"])
rule("Term", ["Factor", "Factor", "Factor MulOp Term"], ["Factor0"])
rule("MulOp", ["'*'", "'/'", "'div'", "'mod'", "'and'", "'shl'", "'shr'", "'as'"], ["'*'"])
rule("Factor", ["Factor0", "Factor0", "Designator", "Designator", "'(' Expr ')'", "'not' Factor", "'@' Designator", "SetCtor",
                "TypeName '(' Expr ')'", "GenericCall", "'(' Expr ')' '.' Ident"], ["Factor0"])
# arguments: expressions, anonymous routines, multi-line literals
rule("Arg", ["Expr", "Expr", "Expr", "AnonRoutine", "MLString", "MLString '.' Ident '(' ')'", "MLString '+' Expr"], ["Factor0"])
rule("ArgList", ["Arg", "Arg ',' ArgList", "Arg ',' Arg"], ["Factor0"])
rule("Factor0", ["Ident", "Number", "String", "'nil'", "Ident", "'True'"], ["Ident", "Number"])
rule("ConstExpr", ["Number", "String", "Ident", "Number AddOp Number", "'-' Number", "'[' ExprList ']'", "Ident '(' Number ')'", "MLString"], ["Number"])
rule("Designator", ["Ident", "Ident '.' DotName", "Ident '[' ExprList ']'", "Ident '(' ExprList ')'", "Ident '.' DotName '(' ExprList ')'", "Ident '^'",
                    "Ident '.' Ident '.' DotName", "Ident '[' Expr ']' '.' Ident", "Ident '(' ')' '.' Ident", "'Self' '.' DotName", "Ident '^' '.' Ident"],
     ["Ident"])
# a member may be spelled like a reserved word: after `.` every word is a name
rule("DotName", ["Ident", "Ident", "Ident", "KwMember"], ["Ident"])
rule("KwMember", ["'End'", "'Begin'", "'Type'", "'Asm'", "'Class'", "'Of'"], ["'End'"], ident=True)
rule("GenericCall", ["TypeIdent '<' TypeArgs '>' '.' 'Create'", "TypeIdent '<' TypeArgs '>' '.' 'Create' '(' ExprList ')'",
                     "Ident '.' Ident '<' TypeName '>' '(' ExprList ')'",
                     # several type arguments directly followed by a bracket (the shape that could also be two comparisons)
                     "Ident '<' TypeName ',' TypeName '>' '(' ExprList ')'", "Ident '.' Ident '<' TypeName ',' TypeName '>' '(' ')'",
                     "TypeIdent '<' TypeName ',' TypeName ',' TypeName '>' '.' Ident '(' ExprList ')'"], ["TypeIdent '<' TypeName '>' '.' 'Create'"])
rule("ExprList", ["Expr", "Expr ',' ExprList", "Expr ',' Expr"], ["Factor0"])
rule("SetCtor", ["'[' ']'", "'[' ExprList ']'", "'[' Number '..' Number ']'", "'[' Ident ',' Ident '..' Ident ']'"], ["'[' ']'"])
rule("AnonRoutine", ["'procedure' OptParams @A 'begin' @{ StmtList @C 'end' @} @.", "'function' OptParams ':' Type @A 'begin' @{ StmtList @C 'end' @} @.",
                     "'procedure' OptParams AnonVarSection @A 'begin' @{ StmtList @C 'end' @} @."],
     ["'procedure' @A 'begin' @{ StmtList @C 'end' @} @."])

# ------------------------------------------------------------------ lexical pools
rule("Ident", ["'A'", "'B'", "'I'", "'Foo'", "'Bar'", "'Baz'", "'Value'", "'Index'", "'Count'", "'Items'", "'FList'", "'AVeryLongIdentifierName'",
               "'AnotherQuiteLongName'", "'Größe'", "'X1'", "'_Tmp'", "'&begin'", "'Name'", "'Message'", "'ReadOnly'", "'Platform'", "'Stored'", "'Local'",
               # long names: 33, 34, 39 and 70 characters (the widths of the scanner's vector steps are 32 and 64)
               "'X23456789012345678901234567890123'", "'X234567890123456789012345678901234'", "'TotalNumberOfRegisteredCustomerAccounts'",
               "'AnIdentifierThatIsLongerThanSixtyFourCharactersSoThatItSpansTwoChunks1'"], ["'A'", "'Foo'"], ident=True)
# (`Default` is not in the pool: a member named Default directly after a property declaration IS the `default;` directive)
rule("TypeIdent", ["'TFoo'", "'TBar'", "'TList'", "'TDictionary'", "'IFoo'", "'TMyVeryLongClassName'"], ["'TFoo'"], ident=True)
rule("TypeName", ["'Integer'", "'Boolean'", "'TFoo'", "'TObject'", "'Byte'", "'Double'", "'PChar'", "'System' '.' 'TObject'", "'Platform'", "'Deprecated'", "'Experimental'"], ["'Integer'"], ident=True)
rule("Number", ["'0'", "'1'", "'42'", "'100000'", "'3.14'", "'1e5'", "'$FF'", "'%1010'", "'1_000'"], ["'1'"])
rule("String", ["'''s'''", "'''hello world'''", "'#13#10'", "'''it''''s'''", "'''a''#9''b'''", "''''''",
                "'''a fairly long string literal that takes room'''"], ["'''s'''"])
# multi-line string literal: the text carries line breaks; the layout engine indents it
rule("MLString", ["'ML3'", "'ML5'", "'ML3b'"], ["'ML3'"])


def sym(x, tag="t"):
    if x.startswith("'") and x.endswith("'") and len(x) >= 2:
        body = x[1:-1].replace("''", "'")
        return '<<"%s", "%s">>' % (tag, body.replace("\\", "\\\\").replace('"', '\\"'))
    if x.startswith("@"):
        return '<<"p", "%s">>' % x[1:]
    assert re.match(r"^[A-Za-z0-9]+$", x), x
    assert x in G, f"undefined non-terminal {x}"
    return '<<"n", "%s">>' % x


def body(b, tag="t"):
    return "<<" + ", ".join(sym(x, tag) for x in b) + ">>"


def alts(lst, tag="t"):
    return "<<" + ",\n      ".join(body(b, tag) for b in lst) + ">>"


def main():
    out = ["------------------------------ MODULE Grammar ------------------------------",
           "(* GENERATED by bin/gen_grammar.py - the production table of the program generator (see Gen.tla).            *)",
           "(* A symbol is <<\"t\", text>> (terminal), <<\"i\", text>> (a terminal that is an identifier by the grammar, however it is  *)",
           "(* spelled), <<\"n\", name>> (non-terminal) or <<\"p\", op>> (structure mark operation).                                *)",
           "(* Prods[nt] is the sequence of alternatives of nt; MinProds[nt] the alternatives allowed once the derivation  *)",
           "(* budget is spent (they terminate).                                                                         *)",
           "EXTENDS Naturals, Sequences", ""]
    out.append("NonTerminals == {" + ", ".join('"%s"' % n for n in G) + "}")
    out.append("")
    out.append("Prods ==")
    out.append("  " + " @@\n  ".join('("%s" :> %s)' % (n, alts(G[n], "i" if n in IDENT_RULES else "t")) for n in G))
    out.append("")
    out.append("MinProds ==")
    out.append("  " + " @@\n  ".join('("%s" :> %s)' % (n, alts(MIN[n], "i" if n in IDENT_RULES else "t")) for n in G))
    out.append("=============================================================================")
    txt = "\n".join(out) + "\n"
    txt = txt.replace("EXTENDS Naturals, Sequences", "EXTENDS Naturals, Sequences, TLC")
    open("/verif/spec/Grammar.tla", "w").write(txt)
    # the budget-exhausted grammar must terminate: every non-terminal has a MinProds alternative over terminating symbols
    term = set()
    changed = True
    while changed:
        changed = False
        for n in G:
            if n not in term and all(any(all((not re.match(r"^[A-Za-z0-9]+$", x)) or x in term for x in alt) for alt in [a]) for a in MIN[n]):
                term.add(n)
                changed = True
    assert term == set(G), "MinProds do not terminate for: %s" % sorted(set(G) - term)
    nprod = sum(len(v) for v in G.values())
    print(len(G), "non-terminals", nprod, "productions")


main()
