#!/usr/bin/env python3
"""seed_save.py <worktree-root> <confirm-log> <PROP>...: copy confirmed seeded changes <root>/<PROP>/mutations/<n> to
/verif/seeded/<PROP>-<n>/ with a meta.json (detection fields are filled in by hand / by seed_mark.py afterwards)."""
import json, os, shutil, sys

root, log = sys.argv[1], sys.argv[2]
conf = {}
for line in open(log):
    line = line.strip()
    if line.startswith("{"):
        r = json.loads(line)
        conf[r["mutation"]] = r
for spec in sys.argv[3:]:
    # <dir>[:<property>:<offset>]  e.g. C01b:C01:3 saves <root>/C01b/mutations/1 as seeded/C01-4
    parts = spec.split(":")
    d, prop, off = parts[0], (parts[1] if len(parts) > 1 else parts[0]), (int(parts[2]) if len(parts) > 2 else 0)
    for n in (1, 2, 3):
        src = f"{root}/{d}/mutations/{n}"
        if not os.path.isdir(src):
            continue
        c = conf.get(src)
        if not c or not (c["apply"] == c["build"] == c["suite"] == "ok" and c["demo_with"] == "fail" and c["demo_without"] == "pass"):
            print("not confirmed:", src, c)
            continue
        dst = f"/verif/seeded/{prop}-{n + off}"
        os.makedirs(dst, exist_ok=True)
        for f in os.listdir(src):
            p = os.path.join(src, f)
            if os.path.isfile(p) and os.path.getsize(p) < 2_000_000:
                shutil.copy(p, os.path.join(dst, f))
        notes = open(os.path.join(src, "notes.md")).read() if os.path.exists(os.path.join(src, "notes.md")) else ""
        meta_p = os.path.join(dst, "meta.json")
        meta = json.load(open(meta_p)) if os.path.exists(meta_p) else {}
        meta.update({
            "id": f"{prop}-{n + off}", "breaks_property": prop,
            "source": "independent sub-agent given only the property text and a scratch worktree",
            "needs_to_manifest": notes[:1500],
            "confirmed": {"applies": "ok", "compiles": "ok", "existing_suite_passes": "ok", "demo_with_change": "fail",
                          "demo_without_change": "pass", "how": "bin/seed_confirm.sh <worktree> <dir>"},
        })
        meta.setdefault("detected_by", None)
        meta.setdefault("detection_note", "")
        json.dump(meta, open(meta_p, "w"), indent=1)
        print("saved", dst)
