#!/bin/bash
# seed_regress.sh [ids...]: apply every seeded change (seeded/<id>/patch.diff) to the repository copy in $VERIF_REPO (default
# /repo), run the quick check of the property that is recorded as catching it, undo the change; one line per change.
REPO=${VERIF_REPO:-/repo}
cd "$(dirname "$0")/.."
ids=${@:-$(ls seeded | grep -E '^C[0-9]+-[0-9]+$' | sort -t- -k1,1 -k2,2n)}
for id in $ids; do
  prop=$(python3 -c "import json;m=json.load(open('seeded/$id/meta.json'));d=(m.get('detected_by') or m['breaks_property']);print(d.replace(',',' ').split()[0])")
  git -C "$REPO" checkout -q -- . 2>/dev/null
  if ! { git -C "$REPO" apply "$PWD/seeded/$id/patch.diff" 2>/dev/null || git -C "$REPO" apply --3way "$PWD/seeded/$id/patch.diff" 2>/dev/null; }; then
    git -C "$REPO" reset -q --hard HEAD; echo "$id $prop APPLY-FAILED"; continue
  fi
  git -C "$REPO" reset -q
  out=$(timeout 2400 python3 bin/check --property $prop --tier quick 2>&1); rc=$?
  echo "$id $prop rc=$rc $(echo "$out" | grep -m1 -A1 '^VIOLATION' | tr '\n' ' ' | cut -c1-200) $(echo "$out" | grep -m1 TOOL-ERROR | cut -c1-160)"
  git -C "$REPO" reset -q; git -C "$REPO" checkout -q -- .
done
