#!/bin/bash
# seed_detect.sh <patch> <property> [more properties...]: apply a seeded change to /repo, run the quick checks, undo it.
patch=$1; shift
cd /repo && git checkout -q -- . && { git apply "$patch" 2>/dev/null || git apply --3way "$patch" 2>/dev/null; } || { git -C /repo reset -q --hard HEAD; echo "APPLY-FAILED $patch"; exit 2; }
git -C /repo reset -q
for p in "$@"; do
  out=$(cd /verif && timeout 1500 python3 bin/check --property $p --tier quick 2>&1); rc=$?
  echo "RESULT patch=$patch property=$p rc=$rc $(echo "$out" | grep -m1 -A1 '^VIOLATION' | tr '\n' ' ' | cut -c1-300) $(echo "$out" | grep -m1 TOOL-ERROR | cut -c1-200)"
done
cd /repo && git reset -q && git checkout -q -- .
