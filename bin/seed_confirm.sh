#!/bin/bash
# seed_confirm.sh <worktree> <mutation-dir>: confirm that a seeded change compiles, passes the existing suite, and that its
# demonstration fails with the change and passes without it. Prints one JSON line.
wt=$1; m=$2
cd "$wt" || exit 2
git checkout -q -- . 2>/dev/null
r_apply=fail; r_build=fail; r_suite=fail; r_demo_with=unknown; r_demo_without=unknown
if git apply --check "$m/patch.diff" 2>/dev/null && git apply "$m/patch.diff"; then r_apply=ok; fi
if [ $r_apply = ok ]; then
  if cargo build --offline >/dev/null 2>&1; then r_build=ok; fi
  if [ $r_build = ok ]; then
    if cargo nextest run --workspace --offline --test-threads 6 --no-fail-fast 2>&1 | grep -q "3212 passed"; then r_suite=ok; fi
    if (cd "$wt" && timeout 300 bash "$m/demo.sh" >/dev/null 2>&1); then r_demo_with=pass; else r_demo_with=fail; fi
  fi
fi
git checkout -q -- .
cargo build --offline >/dev/null 2>&1
if (cd "$wt" && timeout 300 bash "$m/demo.sh" >/dev/null 2>&1); then r_demo_without=pass; else r_demo_without=fail; fi
echo "{\"mutation\":\"$m\",\"apply\":\"$r_apply\",\"build\":\"$r_build\",\"suite\":\"$r_suite\",\"demo_with\":\"$r_demo_with\",\"demo_without\":\"$r_demo_without\"}"
