#!/usr/bin/env python3
"""seed_index.py: append a row to seeded/INDEX.md for every seeded change that has none yet (from its meta.json / notes.md)."""
import json, os, re
root = "/verif/seeded"
idx = open(f"{root}/INDEX.md").read()
rows = []
def key(d):
    m = re.match(r"C(\d+)-(\d+)", d)
    return (int(m.group(1)), int(m.group(2)))
for d in sorted((x for x in os.listdir(root) if re.match(r"C\d+-\d+$", x)), key=key):
    if f"| {d} |" in idx:
        continue
    m = json.load(open(f"{root}/{d}/meta.json"))
    notes = open(f"{root}/{d}/notes.md").read() if os.path.exists(f"{root}/{d}/notes.md") else ""
    title = re.sub(r"^#+\s*(Mutation\s*\d+\s*[-—–:]*\s*)?", "", notes.strip().split("\n")[0]).strip() or m.get("needs_to_manifest", "")[:100]
    by = m.get("detected_by") or ""
    by = ", ".join(by) if isinstance(by, list) else by
    rows.append(f"| {d} | {title[:160]} | {by} | {(m.get('detection_note') or '')[:300]} |")
if rows:
    open(f"{root}/INDEX.md", "w").write(idx.rstrip("\n") + "\n" + "\n".join(rows) + "\n")
print(len(rows), "rows added")
