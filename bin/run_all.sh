#!/bin/bash
# run_all.sh [tier] : every check once (or those named in $PROPS, in that order), one summary line each
tier=${1:-quick}
for p in ${PROPS:-C01 C02 C03 C04 C05 C06 C07 C08 C09 C10 C11 C12 C13 C14 C15 C16 C17 C18 C19}; do
  s=$(date +%s)
  out=$(python3 "$(dirname "$0")/check" --property $p --tier $tier 2>&1); rc=$?
  e=$(( $(date +%s) - s ))
  echo "$p rc=$rc ${e}s $(echo "$out" | grep -c '^KNOWN-FINDING') known $(echo "$out" | grep -m1 -E '^VIOLATION|TOOL-ERROR' | cut -c1-160)"
done
