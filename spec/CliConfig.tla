------------------------------ MODULE CliConfig ------------------------------
(* Resolution of the effective configuration (C19).                                                             *)
(*                                                                                                              *)
(* Directories 0..Depth form a chain: 0 is the top of the scenario's tree, Depth is the working directory.      *)
(* A "source" is a partial assignment of options plus, possibly, one defect (an unknown key or an ill-typed     *)
(* value). Sources can sit in a pasfmt.toml at any level, in the file given with --config-file, and in the      *)
(* list of -C KEY=VALUE options. One action per step of the resolution; any defect in a source that is actually *)
(* read makes the run stop with an error BEFORE a file is touched.                                              *)
EXTENDS Naturals, Sequences, FiniteSets, TLC, Json

CONSTANTS Depth,
          Explicit     \* TRUE: sources may also spell out an option's DEFAULT value, and the fourth option is in play
                       \*       (defects are left to the other configurations: the two dimensions multiply)

\* "other" stands for any of the remaining options (format_multiline_strings, tab_width, continuation_indents,
\* line_ending, encoding): the replay picks one per scenario (a refinement of this model)
Opts == {"wrap_column", "begin_style", "use_tabs", "other"}
\* index 0 = not set in this source; 1 (2) = admissible non-default values; the highest index of an option = its
\* default value WRITTEN OUT (wrap_column 3, the others 2): not setting an option and setting it to its default are
\* different sources with the same meaning - and a written-out default shadows what a lower source says
Top == [wrap_column |-> 3, begin_style |-> 2, use_tabs |-> 2, other |-> 2]
IsDefault(o, i) == i = 0 \/ i = Top[o]
\* bad_value: a value of the wrong type (tab_width = "wide"); out_of_range: a number outside the option's domain
\* (tab_width = 258 for an eight-bit option) - it must be rejected, not reduced to some value inside the domain
\* unreadable: the file cannot be read as text (not valid UTF-8): whichever way it was chosen, the run stops
\* coerced: an ill-typed value that the configuration library converts instead of rejecting (a float or a boolean
\* for a number, a number for a boolean): the property says "rejected", so it is an error here like bad_value
Defects == IF Explicit THEN {"none"} ELSE {"none", "unknown_key", "bad_value", "coerced", "out_of_range", "unreadable"}

\* a source: which value (0 = not set, 1, 2) per option, and a defect
Sources == {s \in [wrap_column : IF Explicit THEN 0..3 ELSE 0..2, begin_style : IF Explicit THEN 0..2 ELSE 0..1,
                    use_tabs : IF Explicit THEN 0..2 ELSE 0..1, other : IF Explicit THEN 0..2 ELSE {0}, defect : Defects] :
              \* keep the space small: at most two options set per source
              Cardinality({o \in Opts : s[o] # 0}) <= 2}
Absent == [wrap_column |-> 0, begin_style |-> 0, use_tabs |-> 0, other |-> 0, defect |-> "absent"]      \* no file at this place
NoSource == [wrap_column |-> 0, begin_style |-> 0, use_tabs |-> 0, other |-> 0, defect |-> "none"]
\* a DIRECTORY that happens to be called pasfmt.toml: it is not a configuration file and does not end the search
DirEntry == [wrap_column |-> 0, begin_style |-> 0, use_tabs |-> 0, other |-> 0, defect |-> "is_dir"]
IsFile(s) == s # Absent /\ s # DirEntry

VARIABLES tree,        \* 0..Depth -> a source or Absent (no pasfmt.toml at that level)
          cfgArg,      \* "none" | "file" | "missing" | "dir"
          argSource,   \* the contents of the --config-file file
          overrides,   \* sequence of single-option sources given with -C, left to right
          chosen,      \* the source that was read from disk (Absent if none)
          eff,         \* effective configuration: option -> value index
          error, phase, touched
vars == <<tree, cfgArg, argSource, overrides, chosen, eff, error, phase, touched>>

Single == {s \in Sources : Cardinality({o \in Opts : s[o] # 0}) + (IF s.defect = "none" THEN 0 ELSE 1) = 1}

\* the sources a file may hold: one setting, one defect, or two settings (one of them shadowing a default)
FewSources == Single \cup {[wrap_column |-> 1, begin_style |-> 1, use_tabs |-> 0, other |-> 0, defect |-> "none"]}
                     \cup (IF Explicit THEN {[wrap_column |-> 0, begin_style |-> 0, use_tabs |-> 2, other |-> 1, defect |-> "none"]}
                           ELSE {[wrap_column |-> 2, begin_style |-> 0, use_tabs |-> 1, other |-> 0, defect |-> "unknown_key"]})

Init == /\ tree \in [0..Depth -> FewSources \cup {Absent, DirEntry}]
        /\ Cardinality({d \in 0..Depth : tree[d] # Absent}) <= 2
        /\ cfgArg \in (IF Explicit THEN {"none", "file"} ELSE {"none", "file", "missing", "dir"})
        /\ argSource \in (IF cfgArg = "file" THEN FewSources ELSE {NoSource})
        /\ LET OSingle == {a \in Single : a.defect # "unreadable"} IN        \* (a -C option is text already)
           overrides \in {<<>>} \cup {<<a>> : a \in OSingle} \cup {<<a, b>> : a \in OSingle, b \in OSingle}
        /\ chosen = Absent /\ eff = [o \in Opts |-> 0] /\ error = FALSE /\ phase = "start" /\ touched = FALSE

\* the nearest pasfmt.toml walking up from the working directory through ALL ancestors
Nearest == IF \E d \in 0..Depth : IsFile(tree[d])
             THEN tree[CHOOSE d \in 0..Depth : IsFile(tree[d]) /\ \A e \in (d + 1)..Depth : ~IsFile(tree[e])]
             ELSE Absent

\* --config-file must exist and be a regular file; it replaces the search
LocateFile == /\ phase = "start"
              /\ IF cfgArg \in {"missing", "dir"} THEN error' = TRUE /\ chosen' = Absent
                 ELSE /\ chosen' = (IF cfgArg = "file" THEN argSource ELSE Nearest)
                      /\ UNCHANGED error
              /\ phase' = "located"
              /\ UNCHANGED <<tree, cfgArg, argSource, overrides, eff, touched>>

Apply(e, s) == [o \in Opts |-> IF s[o] # 0 THEN s[o] ELSE e[o]]

ReadFile == /\ phase = "located" /\ ~error
            /\ IF chosen = Absent THEN UNCHANGED <<eff, error>>
               ELSE IF chosen.defect # "none" THEN error' = TRUE /\ UNCHANGED eff
               ELSE eff' = Apply(eff, chosen) /\ UNCHANGED error
            /\ phase' = "file_read"
            /\ UNCHANGED <<tree, cfgArg, argSource, overrides, chosen, touched>>

RECURSIVE ApplyAll(_, _)
ApplyAll(e, os) == IF os = <<>> THEN e ELSE ApplyAll(Apply(e, Head(os)), Tail(os))

ApplyOverrides == /\ phase = "file_read" /\ ~error
                  /\ IF \E i \in 1..Len(overrides) : overrides[i].defect # "none"
                       THEN error' = TRUE /\ UNCHANGED eff
                       ELSE eff' = ApplyAll(eff, overrides) /\ UNCHANGED error
                  /\ phase' = "resolved"
                  /\ UNCHANGED <<tree, cfgArg, argSource, overrides, chosen, touched>>

\* only a successfully resolved configuration lets the formatter touch a file
FormatFiles == /\ phase = "resolved" /\ ~error
               /\ touched' = TRUE /\ phase' = "done"
               /\ UNCHANGED <<tree, cfgArg, argSource, overrides, chosen, eff, error>>

Fail == /\ error /\ phase # "done"
        /\ phase' = "done"
        /\ UNCHANGED <<tree, cfgArg, argSource, overrides, chosen, eff, error, touched>>

Next == LocateFile \/ ReadFile \/ ApplyOverrides \/ FormatFiles \/ Fail
Spec == Init /\ [][Next]_vars

---------------------------------------------------------------------------
ErrorBeforeTouch == error => ~touched
\* the last -C for an option wins, -C wins over the file, the file wins over the defaults
Precedence ==
  phase = "done" /\ ~error =>
    \A o \in Opts :
      LET setters == {i \in 1..Len(overrides) : overrides[i][o] # 0} IN
      IF setters # {} THEN eff[o] = overrides[CHOOSE i \in setters : \A j \in setters : j <= i][o]
      ELSE IF chosen # Absent /\ chosen[o] # 0 THEN eff[o] = chosen[o]
      ELSE eff[o] = 0
\* the MEANING of the effective configuration: a written-out default and an option nobody set are the same
\* configuration, and must give byte-identical output (the replay compares with the canonical spelling of Meaning)
Meaning == [o \in Opts |-> IF IsDefault(o, eff[o]) THEN 0 ELSE eff[o]]
\* a farther pasfmt.toml never matters, whatever it holds
NearestOnly == phase = "done" /\ cfgArg = "none" => chosen = Nearest

Emit == phase = "done" => PrintT(<<"REPLAY", ToJson([tree |-> [d \in 0..Depth |-> tree[d]], cfgArg |-> cfgArg, argSource |-> argSource,
                                                      overrides |-> overrides, error |-> error, eff |-> eff, meaning |-> Meaning])>>)
=============================================================================
