------------------------------ MODULE DirBlocks ------------------------------
(* Conditional compilation x block structure (C14, C08, C04).                                                   *)
(*                                                                                                              *)
(* A routine body is a sequence of items: statements, openers and closers of compound statements, and           *)
(* conditional sections {$ifdef S} .. {$else} .. {$endif} / {$ifndef S} .. over the symbols A and B.            *)
(* The COMPILER sees one valuation of the symbols at a time; a program is well-formed when, under EVERY         *)
(* valuation, the items it keeps form properly nested compound statements.  pasfmt does not know the            *)
(* valuations: its passes take the first branch of every section, then the second, and so on - for two sections *)
(* testing the same symbol with opposite polarity such a pass is NOT the program of any valuation and may end   *)
(* with a compound statement still open (or close one that was never opened).  The properties over "all         *)
(* well-formed programs" quantify over these too.                                                               *)
(*                                                                                                              *)
(* The machine builds every item sequence of at most N items whose every prefix is consistent under every       *)
(* valuation (one stack of open constructs per valuation), and emits the complete ones.                         *)
EXTENDS Naturals, Sequences, FiniteSets, TLC, Json

CONSTANTS N,            \* maximal number of items
          Symbols,      \* symbols tested by the sections, e.g. {"A"} or {"A", "B"}
          MaxSections,  \* maximal number of conditional sections
          Kinds,        \* the block items in use (a subset of {"stmt"} \cup Openers \cup Closers)
          MaxBranch,    \* maximal number of items in one branch of a section
          MaxDepth      \* maximal number of open constructs

Openers == {"begin", "repeat", "while", "try"}
Closers == {"end", "until", "finally"}
Valuations == [Symbols -> BOOLEAN]

VARIABLES items,     \* sequence of items; an item is a record [k |-> kind, s |-> symbol or ""]
          stack,     \* valuation -> sequence of open constructs
          sect,      \* <<>> outside a section, else <<polarity, symbol, branch>>
          nsect, inbranch, done
vars == <<items, stack, sect, nsect, inbranch, done>>

Init == /\ items = <<>> /\ stack = [v \in Valuations |-> <<>>] /\ sect = <<>> /\ nsect = 0 /\ inbranch = 0 /\ done = FALSE

\* is the code at the current position compiled under valuation v ?
Active(v) == \/ sect = <<>>
             \/ /\ sect # <<>>
                /\ LET first == IF sect[1] = "ifdef" THEN v[sect[2]] ELSE ~v[sect[2]] IN
                   IF sect[3] = 1 THEN first ELSE ~first

Top(st) == IF st = <<>> THEN "none" ELSE st[Len(st)]
Pop(st) == SubSeq(st, 1, Len(st) - 1)

\* effect of a block item on one stack; "bad" when the item cannot stand here
Apply(st, k) ==
  CASE k = "stmt" -> st
    [] k = "begin" -> Append(st, "begin")
    [] k = "while" -> Append(st, "begin")              \* while X do begin
    [] k = "repeat" -> Append(st, "repeat")
    [] k = "try" -> Append(st, "try")
    [] k = "finally" -> IF Top(st) = "try" THEN Append(Pop(st), "finally") ELSE <<"bad">>
    [] k = "end" -> IF Top(st) \in {"begin", "finally"} THEN Pop(st) ELSE <<"bad">>
    [] k = "until" -> IF Top(st) = "repeat" THEN Pop(st) ELSE <<"bad">>

Block(k) == /\ ~done /\ Len(items) < N
            /\ sect # <<>> => inbranch < MaxBranch
            /\ inbranch' = IF sect = <<>> THEN 0 ELSE inbranch + 1
            /\ LET new == [v \in Valuations |-> IF Active(v) THEN Apply(stack[v], k) ELSE stack[v]] IN
               /\ \A v \in Valuations : new[v] # <<"bad">> /\ Len(new[v]) <= MaxDepth
               /\ stack' = new
            /\ items' = Append(items, [k |-> k, s |-> ""])
            /\ UNCHANGED <<sect, nsect, done>>

OpenSection(pol, s) == /\ ~done /\ Len(items) < N /\ sect = <<>> /\ nsect < MaxSections
                       /\ sect' = <<pol, s, 1>> /\ nsect' = nsect + 1
                       /\ items' = Append(items, [k |-> pol, s |-> s])
                       /\ inbranch' = 0
                       /\ UNCHANGED <<stack, done>>
Else == /\ ~done /\ Len(items) < N /\ sect # <<>> /\ sect[3] = 1
        /\ sect' = <<sect[1], sect[2], 2>>
        /\ items' = Append(items, [k |-> "else", s |-> ""])
        /\ inbranch' = 0
        /\ UNCHANGED <<stack, nsect, done>>
Endif == /\ ~done /\ Len(items) < N /\ sect # <<>>
         /\ sect' = <<>>
         /\ items' = Append(items, [k |-> "endif", s |-> ""])
         /\ inbranch' = 0
         /\ UNCHANGED <<stack, nsect, done>>

\* a complete body: no section open, nothing open under any valuation, and at least one section splits a construct
Finish == /\ ~done /\ sect = <<>> /\ \A v \in Valuations : stack[v] = <<>>
          /\ nsect > 0
          /\ done' = TRUE
          /\ UNCHANGED <<items, stack, sect, nsect, inbranch>>

Next == \/ \E k \in Kinds : Block(k)
        \/ \E pol \in {"ifdef", "ifndef"}, s \in Symbols : OpenSection(pol, s)
        \/ Else \/ Endif \/ Finish
Spec == Init /\ [][Next]_vars

---------------------------------------------------------------------------
\* Design invariants of the generator itself
TypeOK == /\ Len(items) <= N /\ nsect <= MaxSections
          /\ \A v \in Valuations : \A i \in 1..Len(stack[v]) : stack[v][i] \in {"begin", "repeat", "try", "finally"}

\* the program seen by valuation v
Kept(v) ==
  LET RECURSIVE Go(_, _, _)
      Go(i, sc, acc) ==
        IF i > Len(items) THEN acc
        ELSE LET it == items[i] IN
             IF it.k \in {"ifdef", "ifndef"} THEN Go(i + 1, <<it.k, it.s, 1>>, acc)
             ELSE IF it.k = "else" THEN Go(i + 1, <<sc[1], sc[2], 2>>, acc)
             ELSE IF it.k = "endif" THEN Go(i + 1, <<>>, acc)
             ELSE LET act == \/ sc = <<>>
                             \/ /\ sc # <<>>
                                /\ LET first == IF sc[1] = "ifdef" THEN v[sc[2]] ELSE ~v[sc[2]] IN IF sc[3] = 1 THEN first ELSE ~first
                  IN Go(i + 1, sc, IF act THEN Append(acc, it.k) ELSE acc)
  IN Go(1, <<>>, <<>>)

\* the token stream of pasfmt's pass number p (1 = first branch of every section, 2 = second branch of every section)
PassStream(p) ==
  LET RECURSIVE Go(_, _, _)
      Go(i, br, acc) ==
        IF i > Len(items) THEN acc
        ELSE LET it == items[i] IN
             IF it.k \in {"ifdef", "ifndef"} THEN Go(i + 1, 1, acc)
             ELSE IF it.k = "else" THEN Go(i + 1, 2, acc)
             ELSE IF it.k = "endif" THEN Go(i + 1, 0, acc)
             ELSE Go(i + 1, br, IF br = 0 \/ br = p THEN Append(acc, it.k) ELSE acc)
  IN Go(1, 0, <<>>)

RECURSIVE Balanced(_, _)
Balanced(s, st) == IF s = <<>> THEN st = <<>>
                   ELSE LET n == Apply(st, Head(s)) IN n # <<"bad">> /\ Balanced(Tail(s), n)

\* every emitted body is well-formed under every valuation
WellFormed == done => \A v \in Valuations : Balanced(Kept(v), <<>>)
\* does some pass of the formatter see a stream that is the program of no valuation and is not balanced ?
Unreal == \E p \in 1..2 : ~Balanced(PassStream(p), <<>>)

Emit == done => PrintT(<<"REPLAY", ToJson([items |-> items, unreal |-> Unreal])>>)
\* only the bodies on which some pass of the formatter sees a program of no valuation (the larger configurations)
EmitUnreal == done /\ Unreal => PrintT(<<"REPLAY", ToJson([items |-> items, unreal |-> TRUE])>>)
=============================================================================
