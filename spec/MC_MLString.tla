----------------------------- MODULE MC_MLString -----------------------------
(* Multi-line string literals over every body of at most N code points from Alphabet (C12).                      *)
(* The literal is  Q LF body Q  with Q = three (or five) quotes; only bodies for which the scanner of Lexer.tla   *)
(* sees exactly one multi-line literal are kept (a body containing the closing quotes early is another case of    *)
(* the scanner, not of this machine). STRIP_BY_LENGTH is a bug switch: interior lines lose as many characters as  *)
(* the closing indentation is long, whatever they are.                                                           *)
EXTENDS MLString, Lexer, TLC, Json

CONSTANTS Alphabet, N, Quotes, STRIP_BY_LENGTH, FirstBreak      \* FirstBreak: "lf" | "cr" | "crlf" after the opening quotes

VARIABLES body, phase
vars == <<body, phase>>

Q == [i \in 1..Quotes |-> 39]
FB == CASE FirstBreak = "cr" -> <<CR>> [] FirstBreak = "crlf" -> <<CR, LF>> [] OTHER -> <<LF>>
Literal == Q \o FB \o body \o Q
OneLiteral == LET t == TextLiteral(Literal, 1) IN t.kind = "TextLiteral(MultiLine)" /\ t.end = Len(Literal) + 1

Init == body = <<>> /\ phase = "gen"
Extend == /\ phase = "gen" /\ Len(body) < N
          /\ \E c \in Alphabet : body' = Append(body, c)
          /\ UNCHANGED phase
Check == /\ phase = "gen" /\ phase' = "done" /\ UNCHANGED body
Next == Extend \/ Check
Spec == Init /\ [][Next]_vars

Indent4 == <<SPACE, SPACE, SPACE, SPACE>>
NLs == {<<LF>>, <<CR, LF>>}

\* the bug: an interior line that is shorter than the closing indentation is taken for a blank one, whatever it holds
BuggyQualifies(text) ==
  /\ ClosingLineOk(text)
  /\ LET ls == SplitLines(text)  b == Base(text) IN \A k \in 2..(Len(ls) - 1) : IsPrefix(b, ls[k]) \/ Len(ls[k]) < Len(b)
Accepts(text) == IF STRIP_BY_LENGTH THEN BuggyQualifies(text) ELSE ImplQualifies(text)

\* what the formatter does to the literal when the option is on
Formatted(text, indent, nl) == IF Accepts(text) THEN Rewrite(text, indent, nl) ELSE text

Relevant == phase = "done" /\ OneLiteral

\* C12: the value survives; afterwards every non-empty interior line and the closing quotes start with the new indentation
ValueKept == Relevant => \A nl \in NLs :
    LET f == Formatted(Literal, Indent4, nl) IN
    Qualifies(Literal) => (Qualifies(f) /\ Value(f) = Value(Literal))
Reindented == Relevant /\ ImplQualifies(Literal) => \A nl \in NLs :
    LET f == Formatted(Literal, Indent4, nl)  ls == SplitLines(f) IN
    /\ \A k \in 2..Len(ls) : ls[k] = <<>> \/ IsPrefix(Indent4, ls[k])
    /\ IsPrefix(Indent4, ls[Len(ls)])
    /\ f = JoinLines(ls, 1, nl)                                  \* only the configured terminator separates lines
\* formatting a formatted literal again changes nothing (the string part of idempotence)
Fixpoint == Relevant => \A nl \in NLs :
    LET f == Formatted(Literal, Indent4, nl) IN Formatted(f, Indent4, nl) = f
\* C01 on the literal: no non-blank character is lost or invented
NonBlankKept == Relevant => NonBlank(Formatted(Literal, Indent4, <<LF>>)) = NonBlank(Literal)
\* what the implementation accepts is a subset of the property's rule (named deviation: blank lines that are not a prefix)
ImplSubset == Relevant /\ ImplQualifies(Literal) => Qualifies(Literal)

Emit == Relevant => PrintT(<<"REPLAY", ToJson([text |-> Literal, qualifies |-> Qualifies(Literal), impl |-> ImplQualifies(Literal),
                                               lf4 |-> Formatted(Literal, Indent4, <<LF>>), crlf4 |-> Formatted(Literal, Indent4, <<CR, LF>>)])>>)
=============================================================================
