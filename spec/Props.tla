------------------------------- MODULE Props -------------------------------
(* The properties that speak about ONE call of the formatter, as predicates over a call record.                 *)
(* A call record is what the harness projects out of a real run (see harness/src/check.rs: call_json):          *)
(*   cfg  : [wrap, always_wrap, fms, tabs, tw, ci, crlf]                                                        *)
(*   in, out : texts (code points);  ok : the call returned (no abort)                                          *)
(*   tin, tout : <<ws, len, kind>> token lists of the public scanner on in / out                                *)
(*   ftab : final token table <<ignored, ws_len, text_len, nl, ind, cont, sp, kind, same_text>>, one row per    *)
(*          token, lengths measured on `out` (ws = rendered or verbatim blanks in front of the token)           *)
(*   pkinds, plines : result of the public parser on `in`                                                       *)
(*   cur : <<old, new, new_on_boundary>> cursors in bytes;  btab : <<start_in, len, start_out>> in bytes        *)
EXTENDS Naturals, Integers, Sequences, FiniteSets, Chars, Keywords, Lexer

---------------------------------------------------------------------------
(* positions *)

\* content start (1-based) of every row of a table whose rows begin <<..ws, len..>> at columns cw, cl
RECURSIVE StartsAcc(_, _, _, _, _, _)
StartsAcc(t, cw, cl, i, pos, acc) ==
  IF i > Len(t) THEN acc
  ELSE StartsAcc(t, cw, cl, i + 1, pos + t[i][cw] + t[i][cl], Append(acc, pos + t[i][cw] + 1))

TokStarts(t) == StartsAcc(t, 1, 2, 1, 0, <<>>)
TabStarts(t) == StartsAcc(t, 2, 3, 1, 0, <<>>)

RECURSIVE SumLens(_, _, _, _)
SumLens(t, cw, cl, i) == IF i = 0 THEN 0 ELSE t[i][cw] + t[i][cl] + SumLens(t, cw, cl, i - 1)

---------------------------------------------------------------------------
(* C13, on the scanner's result for a text: lossless, one Eof last, non-empty, non-blank start - and agreement  *)
(* with the specification's scanner (Lexer.tla)                                                                 *)

C13_Lossless(s, t) ==
  /\ Len(t) >= 1
  /\ SumLens(t, 1, 2, Len(t)) = Len(s)
  /\ LET st == TokStarts(t) IN
     \A i \in 1..Len(t) :
       /\ (t[i][3] = "Eof") <=> (i = Len(t))
       /\ \A k \in (st[i] - t[i][1])..(st[i] - 1) : Blank(s[k])
       /\ i < Len(t) => t[i][2] >= 1 /\ ~Blank(s[st[i]])
       /\ i = Len(t) => t[i][2] = 0

SpecTokens(s) == LET l == Lex(s) IN [i \in 1..Len(l) |-> <<l[i].ws, l[i].len, l[i].kind>>]
C13_Agrees(s, t) == SpecTokens(s) = t

---------------------------------------------------------------------------
(* C01 *)

\* TLC cannot take substrings of strings, so kinds are classified by membership
WordKinds == {"Identifier"} \cup {KeywordKind[w] : w \in KeywordWords}
DirectiveKinds == {"CompilerDirective", "ConditionalDirective(If)", "ConditionalDirective(Ifdef)",
                   "ConditionalDirective(Ifndef)", "ConditionalDirective(Ifopt)", "ConditionalDirective(Elseif)",
                   "ConditionalDirective(Else)", "ConditionalDirective(Ifend)", "ConditionalDirective(Endif)"}
CommentKinds == {"Comment(InlineBlock)", "Comment(IndividualBlock)", "Comment(MultilineBlock)",
                 "Comment(InlineLine)", "Comment(IndividualLine)"}

\* the name of a directive: after `{$` or `(*$`, the run of letters, digits, `_`, `+`, `-`, `,`
DirNameRange(text) ==
  LET p == IF Len(text) >= 2 /\ text[1] = 123 /\ text[2] = 36 THEN 3
           ELSE IF Len(text) >= 3 /\ text[1] = 40 /\ text[2] = 42 /\ text[3] = 36 THEN 4 ELSE 0
      IsNameChar(c) == IsAlnum(c) \/ c \in {95, 43, 45, 44}
  IN IF p = 0 THEN <<1, 0>>
     ELSE <<p, (CHOOSE e \in (p - 1)..Len(text) :
                  /\ \A k \in p..e : IsNameChar(text[k])
                  /\ (e = Len(text) \/ ~IsNameChar(text[e + 1])))>>

NBIdx(s) == SelectSeq([i \in 1..Len(s) |-> i], LAMBDA i : ~Blank(s[i]))

C01_Sequence(r) ==
  LET a == NonBlank(r.in)  b == NonBlank(r.out) IN
  /\ Len(a) = Len(b)
  /\ \A k \in 1..Len(a) : Fold(a[k]) = Fold(b[k])

C01_Case(r) ==
  LET a == NonBlank(r.in)  b == NonBlank(r.out)
      idx == NBIdx(r.in)
      st == TokStarts(r.tin)
      n == Len(r.tin)
  IN \A k \in {j \in 1..Len(a) : j <= Len(b) /\ a[j] # b[j]} :
       LET p == idx[k]
           i == CHOOSE j \in 1..n : st[j] <= p /\ p < st[j] + r.tin[j][2]
           text == SubSeq(r.in, st[i], st[i] + r.tin[i][2] - 1)
           kind == r.tin[i][3]
           rng == DirNameRange(text)
       IN \/ kind \in WordKinds /\ FoldSeq(text) \in KeywordWords
          \/ kind \in DirectiveKinds /\ (p - st[i] + 1) >= rng[1] /\ (p - st[i] + 1) <= rng[2]

C01(r) == C01_Sequence(r) /\ C01_Case(r)

---------------------------------------------------------------------------
(* rendered whitespace: C08, C09 (emitted breaks), C10 (units) on the final table                                *)

NLof(r) == IF r.cfg.crlf THEN <<CR, LF>> ELSE <<LF>>

IsPrefixAt(s, p, x) == p + Len(x) - 1 <= Len(s) /\ \A k \in 1..Len(x) : s[p + k - 1] = x[k]

\* number of leading copies of nl in ws
RECURSIVE LeadingBreaks(_, _, _)
LeadingBreaks(ws, p, nl) == IF IsPrefixAt(ws, p, nl) THEN 1 + LeadingBreaks(ws, p + Len(nl), nl) ELSE 0

\* [ok, breaks, tail]: ok = nothing but configured breaks followed by a tail without any break character
SplitWs(ws, nl) ==
  LET b == LeadingBreaks(ws, 1, nl)
      tail == SubSeq(ws, b * Len(nl) + 1, Len(ws))
  IN [ok |-> \A k \in 1..Len(tail) : tail[k] # LF /\ tail[k] # CR, breaks |-> b, tail |-> tail]

ForeignBreak(ws, nl) ==
  IF Len(nl) = 1 THEN \E k \in 1..Len(ws) : ws[k] = CR
  ELSE \E k \in 1..Len(ws) : \/ ws[k] = CR /\ At(ws, k + 1) # LF
                             \/ ws[k] = LF /\ At(ws, k - 1) # CR

Row(r, i) == r.ftab[i]
Ignored(r, i) == r.ftab[i][1] # 0
WsOf(r, st, i) == SubSeq(r.out, st[i] - r.ftab[i][2], st[i] - 1)
TextOf(r, st, i) == SubSeq(r.out, st[i], st[i] + r.ftab[i][3] - 1)

TableCoversOutput(r) == SumLens(r.ftab, 2, 3, Len(r.ftab)) = Len(r.out)

IndentOk(r, tail) ==
  IF r.cfg.tabs THEN \A k \in 1..Len(tail) : tail[k] = TAB
  ELSE /\ \A k \in 1..Len(tail) : tail[k] = SPACE
       /\ IF r.cfg.tw = 0 THEN Len(tail) = 0 ELSE Len(tail) % r.cfg.tw = 0

\* the set of violated clauses of C08 / C09(emitted) for token i
WsViolations(r, st, i) ==
  LET n == Len(r.ftab)
      ws == WsOf(r, st, i)
      text == TextOf(r, st, i)
      kind == r.ftab[i][8]
      nl == NLof(r)
      sp == SplitWs(ws, nl)
      atLineEnd == IF i < n
                     THEN LET nws == WsOf(r, st, i + 1) IN
                          (Len(nws) >= 1 /\ nws[1] \in {LF, CR}) \/ (i + 1 = n /\ Len(nws) = 0)
                     ELSE TRUE
  IN IF Ignored(r, i) THEN {}
     ELSE
       (IF ~sp.ok THEN (IF ForeignBreak(ws, nl) THEN {<<"C09", "emitted_break">>} ELSE {<<"C08", "trailing_blanks">>})
        ELSE
          (IF i = 1 /\ sp.breaks > 0 /\ kind # "Eof" THEN {<<"C08", "leading_blank_line">>} ELSE {})
          \cup (IF sp.breaks > 2 THEN {<<"C08", "double_blank_line">>} ELSE {})
          \cup (IF sp.breaks = 0 /\ i > 1
                  THEN (IF sp.tail \notin {<<>>, <<SPACE>>} THEN {<<"C08", "one_space">>} ELSE {})
                       \cup (IF kind = "Eof" /\ Len(sp.tail) > 0 THEN {<<"C08", "trailing_blanks">>} ELSE {})
                  ELSE (IF ~IndentOk(r, sp.tail) THEN {<<"C08", "indent_units">>} ELSE {})
                       \cup (IF kind = "Eof" /\ Len(sp.tail) > 0 THEN {<<"C08", "trailing_blanks">>} ELSE {})))
       \cup (IF atLineEnd /\ Len(text) >= 1 /\ text[Len(text)] \in {SPACE, TAB} THEN {<<"C08", "trailing_blanks">>} ELSE {})
       \* a re-indented multi-line string: every interior terminator was emitted by the formatter
       \cup (IF kind = "TextLiteral(MultiLine)" /\ ~r.ftab[i][9] /\ ForeignBreak(text, nl) THEN {<<"C09", "emitted_break_in_string">>} ELSE {})

EndsWith(s, x) == Len(s) >= Len(x) /\ \A k \in 1..Len(x) : s[Len(s) - Len(x) + k] = x[k]

EofClauseViolated(r) ==
  LET nl == NLof(r)
      ok == /\ Len(r.out) >= 1 /\ EndsWith(r.out, nl)
            /\ LET m == Len(r.out) - Len(nl) IN m = 0 \/ r.out[m] \notin {LF, CR}
  IN r.wf /\ ~ok /\ ~Ignored(r, Len(r.ftab))

WhitespaceViolations(r) ==
  IF ~TableCoversOutput(r) THEN {<<"C01", "reconstruct">>}
  ELSE LET st == TabStarts(r.ftab) IN
       UNION {WsViolations(r, st, i) : i \in 1..Len(r.ftab)}
       \cup (IF EofClauseViolated(r) THEN {<<"C08", "eof_terminator">>} ELSE {})

\* C10: each line's indentation = (levels + ci * continuations) units
C10_Units(r) ==
  LET st == TabStarts(r.ftab)
      unitLen == IF r.cfg.tabs THEN 1 ELSE r.cfg.tw
      unit == IF r.cfg.tabs THEN TAB ELSE SPACE
  IN \A i \in 1..Len(r.ftab) :
       LET sp == SplitWs(WsOf(r, st, i), NLof(r)) IN
       (~Ignored(r, i) /\ sp.ok /\ (sp.breaks > 0 \/ i = 1) /\ r.ftab[i][7] = 0) =>
          /\ \A k \in 1..Len(sp.tail) : sp.tail[k] = unit
          /\ Len(sp.tail) = (r.ftab[i][5] + r.cfg.ci * r.ftab[i][6]) * unitLen
          \* (the implementation saturates the soft continuation width at 255 columns: known finding F4, matched by its site)

---------------------------------------------------------------------------
(* C14 on the public parser's result *)

RangeOf(s) == {s[k] : k \in 1..Len(s)}

C14_Violations(r) ==
  LET n == Len(r.tin)
      L == r.plines
      hasCond == \E i \in 1..Len(r.pkinds) : r.pkinds[i] \in (DirectiveKinds \ {"CompilerDirective"})
      cover(i) == Cardinality({l \in 1..Len(L) : i \in RangeOf(L[l].tokens)})
  IN (IF \E l \in 1..Len(L) : Len(L[l].tokens) = 0 THEN {"nonempty"} ELSE {})
     \cup (IF \E l \in 1..Len(L) : \E k \in 1..(Len(L[l].tokens) - 1) : L[l].tokens[k] >= L[l].tokens[k + 1] THEN {"increasing"} ELSE {})
     \cup (IF \E l \in 1..Len(L) : \E k \in 1..Len(L[l].tokens) : L[l].tokens[k] < 1 \/ L[l].tokens[k] > n THEN {"valid_positions"} ELSE {})
     \cup (IF \E i \in 1..n : cover(i) = 0 THEN {"cover"} ELSE {})
     \cup (IF ~hasCond /\ \E i \in 1..n : cover(i) # 1 THEN {"exactly_once"} ELSE {})
     \cup (IF r.wf /\ \E l \in 1..Len(L) : Len(L[l].parent) = 2 /\ L[l].parent[1] >= l THEN {"parent_precedes"} ELSE {})
     \cup (IF r.wf /\ \E l \in 1..Len(L) : Len(L[l].parent) = 2 /\ L[l].parent[1] < l
                       /\ L[l].parent[2] \notin RangeOf(L[L[l].parent[1]].tokens) THEN {"parent_token"} ELSE {})
     \cup (IF r.wf /\ ~(Cardinality({l \in 1..Len(L) : L[l].typ = "Eof"}) = 1
                        /\ \A l \in 1..Len(L) : L[l].typ = "Eof" => L[l].tokens = <<n>>
                        \* a line holding the end-of-file token IS an end-of-file line
                        /\ \A q \in 1..Len(L) : n \in RangeOf(L[q].tokens) => L[q].typ = "Eof") THEN {"eof_line"} ELSE {})

---------------------------------------------------------------------------
(* C15 on one call with cursors (the text-unchanged clause is a relation, see Session) *)

C15_Violations(r) ==
  IF "cur" \notin DOMAIN r THEN {}
  ELSE UNION {
    LET old == r.cur[k][1]  new == r.cur[k][2]  onb == r.cur[k][3] IN
    IF ~onb \/ new > r.outb THEN {"within_output"}
    ELSE IF old > r.inb THEN (IF new # r.outb THEN {"beyond_end"} ELSE {})
    ELSE IF "btab" \notin DOMAIN r \/ Len(r.btab) # Len(r.ftab) THEN {}
    ELSE LET hit == {i \in 1..Len(r.btab) : old > r.btab[i][1] /\ old <= r.btab[i][1] + r.btab[i][2]} IN
         IF \E i \in hit : r.ftab[i][9] /\ new # r.btab[i][3] + (old - r.btab[i][1]) THEN {"same_offset_in_token"} ELSE {}
    : k \in 1..Len(r.cur)}
---------------------------------------------------------------------------
(* C02: the output re-scans to the same tokens, up to the documented normalisations *)

TokTexts(s, t) == LET st == TokStarts(t) IN [i \in 1..Len(t) |-> SubSeq(s, st[i], st[i] + t[i][2] - 1)]

RECURSIVE TrimAsciiWsEnd(_)
TrimAsciiWsEnd(t) == IF Len(t) >= 1 /\ IsAsciiWs(t[Len(t)]) THEN TrimAsciiWsEnd(SubSeq(t, 1, Len(t) - 1)) ELSE t

\* the forms a line comment may take after formatting: trailing blanks trimmed; one space after `//` or `///`
LineCommentForms(t) ==
  LET tr == TrimAsciiWsEnd(t)
      p == IF Len(tr) >= 3 /\ tr[3] = 47 THEN 3 ELSE 2            \* length of the `//` or `///` opener
      body == SubSeq(tr, p + 1, Len(tr))
      \* a separator line (ten or more equal characters, no letter or digit: //----------, ///==========) is left as it is
      isSep == Len(body) >= 10 /\ ~IsAlnum(body[1]) /\ body[1] < 128 /\ \A k \in 1..Len(body) : body[k] = body[1]
  IN {tr} \cup (IF Len(tr) > p /\ ~IsAsciiWs(tr[p + 1]) /\ ~isSep THEN {SubSeq(tr, 1, p) \o <<SPACE>> \o body} ELSE {})

\* MLValueEq is supplied by the module that knows MLString (Session); here only the hook
TokenEqualModuloNorm(kind, a, b, fms, MLEq(_, _)) ==
  \/ a = b
  \/ kind \in WordKinds /\ FoldSeq(a) \in KeywordWords /\ FoldSeq(a) = b
  \/ kind \in DirectiveKinds /\ Len(a) = Len(b) /\
        LET rng == DirNameRange(a) IN
        \A k \in 1..Len(a) : IF k >= rng[1] /\ k <= rng[2] THEN b[k] \in {a[k], Up(a[k])} ELSE a[k] = b[k]
  \/ kind \in {"Comment(InlineLine)", "Comment(IndividualLine)"} /\ b \in LineCommentForms(a)
  \/ kind = "TextLiteral(MultiLine)" /\ fms /\ MLEq(a, b)

C02_Violations(r, MLEq(_, _)) ==
  IF Len(r.tin) # Len(r.tout) THEN {"token_count"}
  ELSE LET ta == TokTexts(r.in, r.tin)  tb == TokTexts(r.out, r.tout) IN
       (IF \E i \in 1..Len(r.tin) : r.tin[i][3] # r.tout[i][3] THEN {"kind"} ELSE {})        \* (incl. the comment-after-lone-CR case, a known finding)
       \cup (IF \E i \in 1..Len(r.tin) : r.tin[i][3] = r.tout[i][3] /\ r.tin[i][3] # "Eof"
                    /\ ~TokenEqualModuloNorm(r.tin[i][3], ta[i], tb[i], r.cfg.fms, MLEq) THEN {"text"} ELSE {})

---------------------------------------------------------------------------
(* C05: structure marks <<kind, key, ref, delta, ordinal>> (ordinal 0-based among the plain tokens) on the output *)

PlainIdx(t) == SelectSeq([i \in 1..Len(t) |-> i], LAMBDA i : t[i][3] \notin CommentKinds /\ t[i][3] \notin DirectiveKinds /\ t[i][3] # "Eof")

LineStartOf(s, pos) == LET lf == {k \in 1..(pos - 1) : s[k] = LF} IN IF lf = {} THEN 1 ELSE (CHOOSE m \in lf : \A x \in lf : x <= m) + 1
IndentLen(s, ls) == (CHOOSE e \in ls..(Len(s) + 1) : (\A k \in ls..(e - 1) : s[k] \in {SPACE, TAB}) /\ (e = Len(s) + 1 \/ s[e] \notin {SPACE, TAB})) - ls

C05_Violations(r) ==
  LET pi == PlainIdx(r.tout)
      st == TokStarts(r.tout)
      np == Len(pi)
      startOf(o) == st[pi[o + 1]]                              \* o is 0-based
      endOf(o) == st[pi[o + 1]] + r.tout[pi[o + 1]][2] - 1
      first(o) == o = 0 \/ \E k \in (endOf(o - 1) + 1)..(startOf(o) - 1) : r.out[k] = LF
      indentOf(o) == IndentLen(r.out, LineStartOf(r.out, startOf(o)))
      pure(o) == LET ls == LineStartOf(r.out, startOf(o)) IN
                 \A k \in ls..(ls + indentOf(o) - 1) : r.out[k] = (IF r.cfg.tabs THEN TAB ELSE SPACE)
      unit == IF r.cfg.tabs THEN 1 ELSE r.cfg.tw
      M == r.marks
      ordOfKey(k) == (CHOOSE j \in 1..Len(M) : M[j][2] = k)
      applies(m) == m[1] \in {"S", "D", "C", "U", "E"} \/ (m[1] = "B" /\ r.cfg.always_wrap) \/ (m[1] = "T" /\ m[3] = 0)
      \* an enclosing anonymous routine that stayed on its parent's line (deliberate style): walk up the refs
      \* the nearest enclosing anonymous routine that stayed on its parent's line (0: none) ...
      anonOf[key \in 0..Len(M) + 1] ==
         IF key = 0 \/ ~(\E j \in 1..Len(M) : M[j][2] = key) THEN 0
         ELSE LET m == M[ordOfKey(key)] IN
              IF m[1] = "A" /\ m[5] < np /\ ~first(m[5]) THEN key
              ELSE IF m[3] < key THEN anonOf[m[3]] ELSE 0
      \* ... which is deliberate only for a small one: at most one statement or declaration in it, nested ones included
      inlineAnon[key \in 0..Len(M) + 1] ==
         LET a == anonOf[key] IN
         a # 0 /\ Cardinality({j \in 1..Len(M) : M[j][1] \in {"S", "U", "D"} /\ M[j][3] <= Len(M) + 1 /\ anonOf[M[j][3]] = a}) <= 1
  IN IF np # r.nplain THEN {}
     ELSE UNION {
       LET m == M[j] IN
       IF ~applies(m) \/ m[5] >= np THEN {}
       ELSE IF ~first(m[5]) THEN (IF inlineAnon[m[3]] THEN {"own_line_inline_anon"} ELSE {"own_line"})
       ELSE IF ~pure(m[5]) \/ unit = 0 THEN {}
       ELSE IF m[3] = 0 THEN (IF indentOf(m[5]) # 0 THEN {"depth"} ELSE {})
       ELSE IF ~(\E q \in 1..Len(M) : M[q][2] = m[3]) THEN {}
       ELSE LET ro == M[ordOfKey(m[3])][5] IN
            IF ro >= np \/ ~first(ro) THEN {}
            ELSE IF indentOf(m[5]) # indentOf(ro) + m[4] * unit THEN {"depth"} ELSE {}
       : j \in 1..Len(M)}

\* C02: the tokens that the generator's grammar knows to be identifiers (ordinals among the plain tokens, 0-based) keep
\* their exact spelling, also when it is the spelling of a contextual keyword
C02_IdentsKept(r) ==
  LET pa == PlainIdx(r.tin)  pb == PlainIdx(r.tout)
      ta == TokTexts(r.in, r.tin)  tb == TokTexts(r.out, r.tout)
      \* `library` is a reserved word in every context (exempt: the grammar does not emit it as a name any more)
      Portability == {<<108,105,98,114,97,114,121>>}
  IN Len(pa) # Len(pb) \/ \A k \in 1..Len(r.idents) :
        \/ r.idents[k] + 1 > Len(pa)
        \/ ta[pa[r.idents[k] + 1]] = tb[pb[r.idents[k] + 1]]
        \/ FoldSeq(ta[pa[r.idents[k] + 1]]) \in Portability

---------------------------------------------------------------------------
(* C07: verbatim regions (code point ranges <<from, to, open>> of the input, 0-based half-open; open = not closed by an  *)
(* on-comment) occur in the output                                                                              *)

Occurs(x, s) == \E p \in 1..(Len(s) - Len(x) + 1) : \A k \in 1..Len(x) : s[p + k - 1] = x[k]

IsSuffix(x, s) == Len(x) <= Len(s) /\ \A k \in 1..Len(x) : s[Len(s) - Len(x) + k] = x[k]
\* an unclosed region runs to the end of the input and is the end of the output
C07_RegionsKept(r) == \A i \in 1..Len(r.regions) :
   LET x == SubSeq(r.in, r.regions[i][1] + 1, r.regions[i][2]) IN
   IF r.regions[i][3] THEN IsSuffix(x, r.out) ELSE Occurs(x, r.out)
=============================================================================
