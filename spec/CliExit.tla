------------------------------- MODULE CliExit -------------------------------
(* The exit status as a function of the per-file outcomes of one invocation (C16, C18).                          *)
(*                                                                                                              *)
(* CliModes and CliWorkers abstract an invocation to three or four files; the status they compute is a          *)
(* disjunction, which is sound for any number of files ONLY IF the front end really keeps a flag. This module   *)
(* models the reporting path: every failing path is handed to the error handler, one call per path, in any      *)
(* order; the handler records that something failed; the process exits with a status derived from the record.   *)
(* The number of failing paths is a parameter: the property must hold for every count, in particular at the     *)
(* counts where a status kept in a narrow integer would wrap.                                                   *)
EXTENDS Naturals, TLC, Json

CONSTANTS FailCounts,    \* numbers of failing paths to explore
          GoodCounts,    \* numbers of paths that succeed
          COUNT_AS_BYTE  \* bug switch: the status is the number of reported errors truncated to eight bits

Kinds == {"missing", "undecodable", "misformatted_check"}     \* what makes a path fail

VARIABLES fails, goods, kind,      \* the scenario
          leftF, leftG,            \* paths not yet processed
          reported, flag, status, phase
vars == <<fails, goods, kind, leftF, leftG, reported, flag, status, phase>>

Init == /\ fails \in FailCounts /\ goods \in GoodCounts /\ kind \in Kinds
        /\ leftF = fails /\ leftG = goods /\ reported = 0 /\ flag = FALSE /\ status = 0 /\ phase = "run"

Fail == /\ phase = "run" /\ leftF > 0
        /\ leftF' = leftF - 1 /\ reported' = reported + 1 /\ flag' = TRUE
        /\ UNCHANGED <<fails, goods, kind, leftG, status, phase>>
Good == /\ phase = "run" /\ leftG > 0
        /\ leftG' = leftG - 1
        /\ UNCHANGED <<fails, goods, kind, leftF, reported, flag, status, phase>>
Exit == /\ phase = "run" /\ leftF = 0 /\ leftG = 0
        /\ status' = IF COUNT_AS_BYTE THEN reported % 256 ELSE IF flag THEN 1 ELSE 0
        /\ phase' = "done"
        /\ UNCHANGED <<fails, goods, kind, leftF, leftG, reported, flag>>
Next == Fail \/ Good \/ Exit
Spec == Init /\ [][Next]_vars

NonZeroIffFailed == phase = "done" => ((status # 0) <=> (fails > 0))
Emit == phase = "done" => PrintT(<<"REPLAY", ToJson([fails |-> fails, goods |-> goods, kind |-> kind, nonzero |-> status # 0])>>)
=============================================================================
