SPECIFICATION Spec
CONSTANTS
  Alphabet = {32, 36, 37, 38, 43, 45, 46, 48, 49, 57, 69, 95, 97, 101, 102, 103}
  N = 4
  Prefixes <- PrefixesNone
INVARIANTS Lossless OneEofLast NonEmptyNonBlankStart Emit
PROPERTIES Progress
CHECK_DEADLOCK FALSE
