SPECIFICATION Spec
CONSTANTS
  Alphabet = {10, 13, 32, 35, 36, 37, 39, 49, 95, 97}
  N = 5
  Prefixes <- PrefixesNone
INVARIANTS Lossless OneEofLast NonEmptyNonBlankStart Emit
PROPERTIES Progress
CHECK_DEADLOCK FALSE
