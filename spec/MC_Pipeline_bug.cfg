SPECIFICATION Spec
CONSTANTS
  REMOVER = TRUE
INVARIANTS Preserved
CHECK_DEADLOCK FALSE
