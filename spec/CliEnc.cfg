SPECIFICATION Spec
INVARIANTS BomDecides RoundTrip MalformedUntouched Emit
CHECK_DEADLOCK FALSE
