SPECIFICATION Spec
CONSTANTS
  Files = {"f1", "f2", "f3"}
  NO_SETLEN = TRUE
  NO_SEEK = FALSE
INVARIANTS FilesModeWritesResult OnlyFilesModeWrites FailuresUntouched CheckExit OtherExit
CHECK_DEADLOCK FALSE
