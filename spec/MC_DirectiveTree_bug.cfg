SPECIFICATION Spec
CONSTANTS
  N = 4
  LONG = 0
  PASS_PRODUCT = TRUE
INVARIANTS Increasing PassBound Cover OnlyPlain
PROPERTIES Terminates
CHECK_DEADLOCK FALSE
