---------------------------- MODULE TraceWorkers ----------------------------
(* Trace validation of the orchestrator's worker events against CliWorkers.                                     *)
(* Events (one line each, appended under a lock while the worker still holds its buffer):                        *)
(*   Reset                          a new invocation starts                                                      *)
(*   File(worker, seq, path, buf_before_clear, buf_len, file_len)   Take + ClearBuf + OpenRead of CliWorkers      *)
(*   Seek | Write(n) | SetLen(n) | SkipUnchanged (worker, seq, path) the write sequence of files mode            *)
(* Checked: per-worker sequence numbers increase by one; the buffer length before the clear is the length left   *)
(* by that worker's previous file (the buffer really is reused); after the read the buffer holds exactly the      *)
(* file (NoStaleBytes); the write sequence of a file is Seek, Write(n), SetLen(n) or SkipUnchanged.              *)
EXTENDS Naturals, Sequences, FiniteSets, TLC, Json, IOUtils

Rec == ndJsonDeserialize(IOEnv.TRACE)

VARIABLES l, lastSeq, lastBuf, wstate
vars == <<l, lastSeq, lastBuf, wstate>>
\* lastSeq, lastBuf: worker -> number (functions grown on demand);  wstate: path -> <<"open"|"seeked"|"written"|"closed", n>>

Get(f, k, d) == IF k \in DOMAIN f THEN f[k] ELSE d
Put(f, k, v) == [x \in DOMAIN f \cup {k} |-> IF x = k THEN v ELSE f[x]]

TraceInit == l = 1 /\ lastSeq = <<>> /\ lastBuf = <<>> /\ wstate = <<>>
IsEvent(e) == l <= Len(Rec) /\ Rec[l].ev = e /\ l' = l + 1
Report(tag, what) == PrintT(<<tag, ToJson(what)>>)

SeqOk(e) == e.seq = Get(lastSeq, e.worker, 0) + 1

TraceReset == /\ IsEvent("Reset") /\ lastSeq' = <<>> /\ lastBuf' = <<>> /\ wstate' = <<>>

TraceFile ==
  /\ IsEvent("File")
  /\ LET e == Rec[l] IN
     /\ lastSeq' = Put(lastSeq, e.worker, e.seq)
     /\ lastBuf' = Put(lastBuf, e.worker, e.buf_len)
     /\ wstate' = Put(wstate, e.path, <<"open", 0>>)
     /\ (~SeqOk(e)) => Report("DRIFT", [clause |-> "event_order", at |-> l])
     \* the buffer is the one this worker used last, or a fresh / already cleared one (a new split of the work, a file that failed to open)
     /\ (e.buf_before_clear \notin {0, Get(lastBuf, e.worker, 0)}) => Report("DRIFT", [clause |-> "buffer_not_reused_as_modelled", at |-> l])
     /\ (e.buf_len # e.file_len) => Report("VIOL", [clause |-> "stale_bytes_in_buffer", at |-> l, path |-> e.path, buf_len |-> e.buf_len, file_len |-> e.file_len])
     /\ (e.buf_before_clear > 0) => Report("REUSED", [at |-> l])

TraceWrite(ev, from(_, _), to(_)) ==
  /\ IsEvent(ev)
  /\ LET e == Rec[l] IN
     /\ lastSeq' = Put(lastSeq, e.worker, e.seq)
     /\ UNCHANGED lastBuf
     /\ wstate' = Put(wstate, e.path, to(e))
     \* (the order of the write steps is how the code reaches C16 / C18, not what they demand: a deviation is model drift; its
     \* consequences - stale tails, emptied files - are observed on the files themselves)
     /\ (~SeqOk(e) \/ ~from(Get(wstate, e.path, <<"none", 0>>), e)) => Report("DRIFT", [clause |-> "write_sequence", at |-> l, ev |-> ev, path |-> e.path])

TraceNext ==
  \/ TraceReset \/ TraceFile
  \/ TraceWrite("SkipUnchanged", LAMBDA s, e : s = <<"open", 0>>, LAMBDA e : <<"closed", 0>>)
  \/ TraceWrite("Seek", LAMBDA s, e : s = <<"open", 0>>, LAMBDA e : <<"seeked", 0>>)
  \/ TraceWrite("Write", LAMBDA s, e : s = <<"seeked", 0>>, LAMBDA e : <<"written", e.n>>)
  \/ TraceWrite("SetLen", LAMBDA s, e : s = <<"written", e.n>>, LAMBDA e : <<"closed", 0>>)
TraceSpec == TraceInit /\ [][TraceNext]_vars

TraceAccepted ==
  LET d == TLCGet("stats").diameter IN
  IF d - 1 = Len(Rec) THEN TRUE ELSE Print(<<"REJECTED", ToJson([matched |-> d - 1, of |-> Len(Rec)])>>, FALSE)
=============================================================================
