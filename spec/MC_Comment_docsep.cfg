SPECIFICATION Spec
CONSTANTS
  Alphabet = {32, 9, 11, 127, 1, 97, 45, 47, 233, 12288}
  N = 2
  Kind = "doc"
  Prefixes <- PrefixesSep
  TRIM_CONTROL = FALSE
INVARIANTS NonBlankKept CaseOnlyInName Fixpoint NoTrailingBlanks Emit
CHECK_DEADLOCK FALSE
