SPECIFICATION Spec
CONSTANTS
  Alphabet = {32, 9, 12288, 97, 39, 13, 10}
  N = 4
  Quotes = 3
  FirstBreak = "crlf"
  STRIP_BY_LENGTH = FALSE
INVARIANTS NonBlankKept ValueKept Reindented Fixpoint ImplSubset Emit
CHECK_DEADLOCK FALSE
