SPECIFICATION Spec
CONSTANTS
  Files = {"f1", "f2", "f3"}
  NO_SETLEN = FALSE
  NO_SEEK = FALSE
INVARIANTS FilesModeWritesResult OnlyFilesModeWrites FailuresUntouched CheckExit OtherExit Emit
CHECK_DEADLOCK FALSE
