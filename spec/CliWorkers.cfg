SPECIFICATION Spec
CONSTANTS
  Files = {"long", "short", "empty"}
  Workers = {"w1", "w2"}
  Failing = {}
  NO_CLEAR = FALSE
INVARIANTS NoStaleBytes BatchEqualsSolo ExitStatus
PROPERTIES Terminates
CHECK_DEADLOCK FALSE
