------------------------------ MODULE Session ------------------------------
(* Histories of formatter calls and the properties that relate several calls (C03, C06, C09, C10, C11, C15a).   *)
(* A relation event names two calls of the session; each relation has a precondition (checked here, never       *)
(* assumed) and a conclusion. RelViolations returns the set of violated <<property, clause>> pairs; a pair of   *)
(* calls outside the domain yields <<"SKIP", reason>>.                                                          *)
EXTENDS Props, MLString, Toggle

SameCfgExcept(a, b, field) ==
  \A f \in {"wrap", "always_wrap", "fms", "tabs", "tw", "ci", "crlf"} : f # field => a.cfg[f] = b.cfg[f]

\* CRLF -> LF
RECURSIVE NormNLAcc(_, _, _)
NormNLAcc(s, p, acc) ==
  IF p > Len(s) THEN acc
  ELSE IF s[p] = CR /\ At(s, p + 1) = LF THEN NormNLAcc(s, p + 1, acc)
  ELSE NormNLAcc(s, p + 1, Append(acc, s[p]))
NormNL(s) == NormNLAcc(s, 1, <<>>)

\* every LF -> CRLF (for texts without CR)
RECURSIVE CrlfOfAcc(_, _, _)
CrlfOfAcc(s, p, acc) ==
  IF p > Len(s) THEN acc
  ELSE IF s[p] = LF THEN CrlfOfAcc(s, p + 1, acc \o <<CR, LF>>) ELSE CrlfOfAcc(s, p + 1, Append(acc, s[p]))
CrlfOf(s) == CrlfOfAcc(s, 1, <<>>)

HasCR(s) == \E k \in 1..Len(s) : s[k] = CR
HasTab(s) == \E k \in 1..Len(s) : s[k] = TAB

TokText(s, st, t, i) == SubSeq(s, st[i], st[i] + t[i][2] - 1)

\* C09 precondition: no line-spanning token that is kept verbatim
NoVerbatimLineSpanning(r) ==
  LET st == TokStarts(r.tin) IN
  \A i \in 1..Len(r.tin) :
    LET text == TokText(r.in, st, r.tin, i)  kind == r.tin[i][3] IN
    /\ ~(kind \in CommentKinds /\ ToggleOf(text) # "none")
    /\ kind # "Keyword(Asm)"
    /\ (\E k \in 1..Len(text) : text[k] \in {LF, CR}) =>
         (kind = "TextLiteral(MultiLine)" /\ r.cfg.fms /\ Qualifies(text))

\* lines of a text (split at LF; a trailing CR belongs to the terminator)
RECURSIVE LineLensAcc(_, _, _, _)
LineLensAcc(s, p, cur, acc) ==
  IF p > Len(s) THEN Append(acc, cur)
  ELSE IF s[p] = LF THEN LineLensAcc(s, p + 1, 0, Append(acc, cur))
  ELSE IF s[p] = CR /\ At(s, p + 1) = LF THEN LineLensAcc(s, p + 1, cur, acc)
  ELSE LineLensAcc(s, p + 1, cur + 1, acc)
LineLens(s) == LineLensAcc(s, 1, 0, <<>>)
MaxLineLen(s) == LET ll == LineLens(s) IN CHOOSE m \in RangeOf(ll) : \A x \in RangeOf(ll) : x <= m
LineCount(s) == Len(LineLens(s))

\* replace every leading tab of every line by tw spaces
RECURSIVE ExpandTabsAcc(_, _, _, _, _)
ExpandTabsAcc(s, p, atStart, tw, acc) ==
  IF p > Len(s) THEN acc
  ELSE IF s[p] = TAB /\ atStart THEN ExpandTabsAcc(s, p + 1, TRUE, tw, acc \o [k \in 1..tw |-> SPACE])
  ELSE ExpandTabsAcc(s, p + 1, s[p] = LF, tw, Append(acc, s[p]))
ExpandLeadingTabs(s, tw) == ExpandTabsAcc(s, 1, TRUE, tw, <<>>)

INF == 1000000

RelViolations(rel, a, b) ==
  IF ~a.ok \/ ~b.ok THEN {<<"SKIP", "a call did not return">>}
  ELSE
  CASE rel = "idem" ->
         IF ~(a.wf /\ b.in = a.out /\ SameCfgExcept(a, b, "none")) THEN {<<"SKIP", "idem precondition">>}
         ELSE IF b.out # b.in THEN {<<"C03", "idempotent">>} ELSE {}
    [] rel = "lecfg" ->
         IF ~(a.in = b.in /\ SameCfgExcept(a, b, "crlf") /\ a.cfg.crlf # b.cfg.crlf) THEN {<<"SKIP", "lecfg precondition">>}
         ELSE IF NormNL(a.out) # NormNL(b.out) THEN {<<"C09", "crlf_is_lf_substituted">>} ELSE {}
    [] rel = "lein" ->
         IF ~(SameCfgExcept(a, b, "none") /\ ~HasCR(a.in) /\ b.in = CrlfOf(a.in) /\ NoVerbatimLineSpanning(a))
           THEN {<<"SKIP", "lein precondition">>}
         ELSE IF b.out # a.out THEN {<<"C09", "input_endings">>} ELSE {}
    [] rel = "tabs" ->
         IF ~(a.in = b.in /\ SameCfgExcept(a, b, "tabs") /\ ~a.cfg.tabs /\ b.cfg.tabs /\ a.cfg.wrap >= INF /\ ~HasTab(a.in))
           THEN {<<"SKIP", "tabs precondition">>}
         ELSE IF ExpandLeadingTabs(b.out, a.cfg.tw) # a.out THEN {<<"C10", "tabs_expand_to_spaces">>} ELSE {}
    [] rel = "width" ->
         IF ~(a.in = b.in /\ SameCfgExcept(a, b, "wrap") /\ a.cfg.wrap < b.cfg.wrap /\ a.wf) THEN {<<"SKIP", "width precondition">>}
         ELSE (IF MaxLineLen(b.out) <= a.cfg.wrap /\ a.outb = Len(a.out) /\ b.outb = Len(b.out) /\ a.out # b.out
                 THEN {<<"C11", "fits_narrower_same_result">>} ELSE {})
              \cup (IF LineCount(b.out) > LineCount(a.out) THEN {<<"C11", "wider_not_more_lines">>} ELSE {})
              \cup (IF a.outb = Len(a.out) /\ MaxLineLen(a.out) <= a.cfg.wrap /\ MaxLineLen(b.out) > b.cfg.wrap
                      THEN {<<"C11", "fits_stays_fitting">>} ELSE {})
    [] rel = "cursor" ->
         IF ~(a.in = b.in /\ SameCfgExcept(a, b, "none") /\ "cur" \notin DOMAIN a) THEN {<<"SKIP", "cursor precondition">>}
         ELSE IF a.out # b.out THEN {<<"C15", "text_unchanged">>} ELSE {}
    [] rel = "same" ->      \* C06 / C18 / C19: two calls that must give the same output (precondition established by the generator and re-checked by its own monitor)
         IF a.out # b.out THEN {<<"SAME", "outputs_differ">>} ELSE {}
    [] OTHER -> {<<"SKIP", "unknown relation">>}
=============================================================================
