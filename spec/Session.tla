------------------------------ MODULE Session ------------------------------
(* Histories of formatter calls and the properties that relate several calls (C03, C06, C09, C10, C11, C15a).   *)
(* A relation event names two calls of the session; each relation has a precondition (checked here, never       *)
(* assumed) and a conclusion. RelViolations returns the set of violated <<property, clause>> pairs; a pair of   *)
(* calls outside the domain yields <<"SKIP", reason>>.                                                          *)
EXTENDS Props, MLString, Toggle

TokText(s, st, t, i) == SubSeq(s, st[i], st[i] + t[i][2] - 1)
TokText0(s, st, t, i) == SubSeq(s, st[i], st[i] + t[i][2] - 1)

\* equality of two multi-line literals up to re-indentation (C02 / C12)
MLEq(a, b) == Qualifies(a) /\ Qualifies(b) /\ Value(a) = Value(b) /\ SplitLines(a)[1] = SplitLines(b)[1]

\* C07: the regions the specification computes from the scanned input (toggle comments), as sets of token indices,
\* must be exactly the tokens the formatter treats as verbatim - except asm instruction lines
ToggleMarksOf(r) ==
  LET st == TokStarts(r.tin)
      tg == [i \in 1..Len(r.tin) |-> IF r.tin[i][3] \in CommentKinds THEN ToggleOf(TokText0(r.in, st, r.tin, i)) ELSE "none"]
  IN Marks(tg)

\* C12 on the k-th multi-line literal of input and output
MLIdx(t) == SelectSeq([i \in 1..Len(t) |-> i], LAMBDA i : t[i][3] = "TextLiteral(MultiLine)")

C12_Violations(r) ==
  LET ia == MLIdx(r.tin)  ib == MLIdx(r.tout)
      ta == TokTexts(r.in, r.tin)  tb == TokTexts(r.out, r.tout)
      marks == ToggleMarksOf(r)
      nl == NLof(r)
      sb == TokStarts(r.tout)
  IN IF Len(ia) # Len(ib) THEN (IF Len(ia) > 0 THEN {"literal_count"} ELSE {})
     ELSE UNION {
       LET x == ta[ia[k]]  y == tb[ib[k]] IN
       IF ~(Qualifies(x) /\ r.cfg.fms) \/ marks[ia[k]] THEN (IF x # y THEN {"verbatim"} ELSE {})
       ELSE IF ~(Qualifies(y) /\ Value(y) = Value(x)) THEN {"value"}
       ELSE (IF ForeignBreak(y, nl) THEN {"terminators"} ELSE {})
            \cup (LET pos == sb[ib[k]]
                      ls == LineStartOf(r.out, pos)
                      ind == SubSeq(r.out, ls, pos - 1)
                      lines == SplitLines(y)
                  IN IF (\A q \in 1..Len(ind) : ind[q] \in {SPACE, TAB})
                        /\ \E j \in 2..Len(lines) :
                             IF j = Len(lines) THEN ~(IsPrefix(ind, lines[j]) /\ AllQuotes(SubSeq(lines[j], Len(ind) + 1, Len(lines[j]))))
                             ELSE ~(lines[j] = <<>> \/ IsPrefix(ind, lines[j]))
                     THEN {"indentation"} ELSE {})
       : k \in 1..Len(ia)}

SameCfgExcept(a, b, field) ==
  \A f \in {"wrap", "always_wrap", "fms", "tabs", "tw", "ci", "crlf"} : f # field => a.cfg[f] = b.cfg[f]

\* CRLF -> LF
RECURSIVE NormNLAcc(_, _, _)
NormNLAcc(s, p, acc) ==
  IF p > Len(s) THEN acc
  ELSE IF s[p] = CR /\ At(s, p + 1) = LF THEN NormNLAcc(s, p + 1, acc)
  ELSE NormNLAcc(s, p + 1, Append(acc, s[p]))
NormNL(s) == NormNLAcc(s, 1, <<>>)

\* every LF -> CRLF (for texts without CR)
RECURSIVE CrlfOfAcc(_, _, _)
CrlfOfAcc(s, p, acc) ==
  IF p > Len(s) THEN acc
  ELSE IF s[p] = LF THEN CrlfOfAcc(s, p + 1, acc \o <<CR, LF>>) ELSE CrlfOfAcc(s, p + 1, Append(acc, s[p]))
CrlfOf(s) == CrlfOfAcc(s, 1, <<>>)

HasCR(s) == \E k \in 1..Len(s) : s[k] = CR
HasTab(s) == \E k \in 1..Len(s) : s[k] = TAB


\* C09 precondition: no line-spanning token that is kept verbatim
NoVerbatimLineSpanning(r) ==
  LET st == TokStarts(r.tin) IN
  \A i \in 1..Len(r.tin) :
    LET text == TokText(r.in, st, r.tin, i)  kind == r.tin[i][3] IN
    /\ ~(kind \in CommentKinds /\ ToggleOf(text) # "none")
    /\ kind # "Keyword(Asm)"
    /\ (\E k \in 1..Len(text) : text[k] \in {LF, CR}) =>
         (kind = "TextLiteral(MultiLine)" /\ r.cfg.fms /\ Qualifies(text))

\* lines of a text (split at LF; a CR directly before the LF belongs to the terminator) - set-based, no recursion
LFPos(s) == {k \in 1..Len(s) : s[k] = LF}
LineCount(s) == Cardinality(LFPos(s)) + 1
SetMax(S) == CHOOSE m \in S : \A x \in S : x <= m
LineLenEndingAt(s, lfs, e) ==
  LET prev == {j \in lfs : j < e}
      st == IF prev = {} THEN 1 ELSE SetMax(prev) + 1
  IN (e - st) - (IF e \in lfs /\ e - 1 >= st /\ s[e - 1] = CR THEN 1 ELSE 0)
MaxLineLen(s) == LET lfs == LFPos(s) IN SetMax({LineLenEndingAt(s, lfs, e) : e \in lfs \cup {Len(s) + 1}})

\* replace every leading tab of every line by tw spaces
RECURSIVE ExpandTabsAcc(_, _, _, _, _)
ExpandTabsAcc(s, p, atStart, tw, acc) ==
  IF p > Len(s) THEN acc
  ELSE IF s[p] = TAB /\ atStart THEN ExpandTabsAcc(s, p + 1, TRUE, tw, acc \o [k \in 1..tw |-> SPACE])
  ELSE ExpandTabsAcc(s, p + 1, s[p] = LF, tw, Append(acc, s[p]))
ExpandLeadingTabs(s, tw) == ExpandTabsAcc(s, 1, TRUE, tw, <<>>)

INF == 1000000

\* C06: b.in is a re-layout of a.in - the same tokens, every gap that touches a comment or directive identical, blank-line
\* groups kept (a gap holds a blank line in one text iff it does in the other); all other gaps are free.
CountLF(g) == Cardinality({k \in 1..Len(g) : g[k] = LF})
IsRelayout(a, b) ==
  /\ Len(a.tin) = Len(b.tin)
  /\ LET sa == TokStarts(a.tin)  sb == TokStarts(b.tin)
         special(t, i) == i >= 1 /\ i <= Len(t) /\ (t[i][3] \in CommentKinds \/ t[i][3] \in DirectiveKinds)
     IN \A i \in 1..Len(a.tin) :
          /\ a.tin[i][3] = b.tin[i][3]
          /\ TokText(a.in, sa, a.tin, i) = TokText(b.in, sb, b.tin, i)
          /\ LET ga == SubSeq(a.in, sa[i] - a.tin[i][1], sa[i] - 1)
                 gb == SubSeq(b.in, sb[i] - b.tin[i][1], sb[i] - 1)
             IN IF special(a.tin, i) \/ special(a.tin, i - 1) THEN ga = gb
                ELSE IF a.tin[i][3] = "Eof" THEN TRUE
                ELSE (CountLF(ga) >= 2) = (CountLF(gb) >= 2)

RelViolations(rel, a, b) ==
  \* the same text with and without cursors: a call that returns a text without them and aborts with them
  IF rel = "cursor" /\ a.ok /\ ~b.ok /\ a.in = b.in THEN {<<"C15", "text_unchanged">>}
  ELSE IF ~a.ok \/ ~b.ok THEN {<<"SKIP", "a call did not return">>}
  ELSE
  CASE rel = "idem" ->
         IF ~(a.wf /\ b.in = a.out /\ SameCfgExcept(a, b, "none")) THEN {<<"SKIP", "idem precondition">>}
         ELSE IF b.out # b.in THEN {<<"C03", "idempotent">>} ELSE {}
    [] rel = "lecfg" ->
         IF ~(a.in = b.in /\ SameCfgExcept(a, b, "crlf") /\ a.cfg.crlf # b.cfg.crlf) THEN {<<"SKIP", "lecfg precondition">>}
         ELSE IF NormNL(a.out) # NormNL(b.out) THEN {<<"C09", "crlf_is_lf_substituted">>} ELSE {}
    [] rel = "lein" ->
         \* b.in is a.in with all, or some, of its line breaks written CRLF
         IF ~(SameCfgExcept(a, b, "none") /\ ~HasCR(a.in) /\ NormNL(b.in) = a.in /\ NoVerbatimLineSpanning(a))
           THEN {<<"SKIP", "lein precondition">>}
         ELSE IF b.out # a.out THEN {<<"C09", "input_endings">>} ELSE {}
    [] rel = "tabs" ->
         IF ~(a.in = b.in /\ SameCfgExcept(a, b, "tabs") /\ ~a.cfg.tabs /\ b.cfg.tabs /\ a.cfg.wrap >= INF /\ ~HasTab(a.in)
              /\ a.cfg.tw * a.cfg.ci <= 255)           \* beyond: known finding F4 (the saturation is checked per line by C10_Units)
           THEN {<<"SKIP", "tabs precondition">>}
         ELSE IF ExpandLeadingTabs(b.out, a.cfg.tw) # a.out THEN {<<"C10", "tabs_expand_to_spaces">>} ELSE {}
    [] rel = "width" ->
         IF ~(a.in = b.in /\ SameCfgExcept(a, b, "wrap") /\ a.cfg.wrap < b.cfg.wrap /\ a.wf) THEN {<<"SKIP", "width precondition">>}
         ELSE (IF MaxLineLen(b.out) <= a.cfg.wrap /\ a.outb = Len(a.out) /\ b.outb = Len(b.out) /\ a.out # b.out
                 THEN {<<"C11", "fits_narrower_same_result">>} ELSE {})
              \cup (IF LineCount(b.out) > LineCount(a.out) THEN {<<"C11", "wider_not_more_lines">>} ELSE {})
              \cup (IF a.outb = Len(a.out) /\ MaxLineLen(a.out) <= a.cfg.wrap /\ MaxLineLen(b.out) > b.cfg.wrap
                      THEN {<<"C11", "fits_stays_fitting">>} ELSE {})
    [] rel = "cursor" ->
         IF ~(a.in = b.in /\ SameCfgExcept(a, b, "none") /\ "cur" \notin DOMAIN a) THEN {<<"SKIP", "cursor precondition">>}
         ELSE IF a.out # b.out THEN {<<"C15", "text_unchanged">>} ELSE {}
    [] rel = "relayout" ->
         IF ~(a.wf /\ SameCfgExcept(a, b, "none") /\ IsRelayout(a, b)) THEN {<<"SKIP", "relayout precondition">>}
         ELSE IF a.out # b.out THEN {<<"C06", "layout_independent">>} ELSE {}
    [] rel = "same" ->      \* C06 / C18 / C19: two calls that must give the same output (precondition established by the generator and re-checked by its own monitor)
         IF a.out # b.out THEN {<<"SAME", "outputs_differ">>} ELSE {}
    [] OTHER -> {<<"SKIP", "unknown relation">>}
=============================================================================
