SPECIFICATION Spec
CONSTANTS
  FailCounts = {0, 1, 2, 3, 127, 128, 129, 255, 256, 257, 511, 512, 513, 768, 1024, 65536}
  GoodCounts = {0, 1, 3}
  COUNT_AS_BYTE = FALSE
INVARIANTS NonZeroIffFailed Emit
CHECK_DEADLOCK FALSE
