------------------------------- MODULE Chars -------------------------------
(* Code points and the character classes of the Delphi lexical rules. Texts are sequences of code points        *)
(* (TLC strings are atomic), positions are 1-based.                                                             *)
EXTENDS Naturals, Integers, Sequences

LF == 10
CR == 13
TAB == 9
SPACE == 32
IDEOSPACE == 12288        \* U+3000, treated as a blank by Delphi

\* "blank" of the properties: code points up to U+0020, and U+3000
Blank(c) == c <= 32 \/ c = IDEOSPACE

IsDigit(c) == c >= 48 /\ c <= 57
IsUpper(c) == c >= 65 /\ c <= 90
IsLower(c) == c >= 97 /\ c <= 122
IsAlpha(c) == IsUpper(c) \/ IsLower(c)
IsAlnum(c) == IsAlpha(c) \/ IsDigit(c)
IsHexDigit(c) == IsDigit(c) \/ (c >= 65 /\ c <= 70) \/ (c >= 97 /\ c <= 102)
\* every non-ASCII code point except U+3000 is an identifier character
IsIdentChar(c) == IsAlnum(c) \/ c = 95 \/ (c >= 128 /\ c # IDEOSPACE)
IsAsciiWs(c) == c \in {32, 9, 10, 12, 13}

\* ASCII case folding
Fold(c) == IF IsUpper(c) THEN c + 32 ELSE c
Up(c) == IF IsLower(c) THEN c - 32 ELSE c
FoldSeq(s) == [i \in 1..Len(s) |-> Fold(s[i])]

InClass(cls, c) ==
  CASE cls = "blank"   -> Blank(c)
    [] cls = "ident"   -> IsIdentChar(c)
    [] cls = "dec"     -> IsDigit(c) \/ c = 95
    [] cls = "hex"     -> IsHexDigit(c) \/ c = 95
    [] cls = "bin"     -> c \in {48, 49, 95}
    [] cls = "dirname" -> IsAlnum(c) \/ c = 95
    [] cls = "asmlbl"  -> IsAlnum(c) \/ c = 95 \/ c = 64
    [] cls = "amp"     -> c = 38
    [] cls = "quote"   -> c = 39
    [] cls = "alnum"   -> IsAlnum(c)
    [] cls = "asciiws" -> IsAsciiWs(c)
    [] cls = "notnl"   -> c # LF /\ c # CR

\* the character at position p, or -1 beyond the end
At(s, p) == IF p >= 1 /\ p <= Len(s) THEN s[p] ELSE -1

\* first position >= p whose character is not in the class (Len(s)+1 if none)
RECURSIVE SkipWhile(_, _, _)
SkipWhile(s, p, cls) == IF p <= Len(s) /\ InClass(cls, s[p]) THEN SkipWhile(s, p + 1, cls) ELSE p

\* first position >= p holding character c, or 0
RECURSIVE FindChar(_, _, _)
FindChar(s, p, c) == IF p > Len(s) THEN 0 ELSE IF s[p] = c THEN p ELSE FindChar(s, p + 1, c)

\* first position >= p where the two characters c1 c2 start, or 0
RECURSIVE FindPair(_, _, _, _)
FindPair(s, p, c1, c2) ==
  IF p + 1 > Len(s) THEN 0 ELSE IF s[p] = c1 /\ s[p + 1] = c2 THEN p ELSE FindPair(s, p + 1, c1, c2)

HasChar(s, a, b, c) == \E k \in a..b : k >= 1 /\ k <= Len(s) /\ s[k] = c

\* number of trailing blanks of s
RECURSIVE TrailingBlanks(_, _)
TrailingBlanks(s, n) == IF n >= 1 /\ Blank(s[n]) THEN 1 + TrailingBlanks(s, n - 1) ELSE 0

NonBlank(s) == SelectSeq(s, LAMBDA c : ~Blank(c))
=============================================================================
