SPECIFICATION Spec
CONSTANTS
  Alphabet = {97, 90, 49, 43, 45, 44, 32, 95}
  N = 6
  Kind = "directive"
  Prefixes <- PrefixesNone
  TRIM_CONTROL = FALSE
INVARIANTS NonBlankKept CaseOnlyInName Fixpoint NoTrailingBlanks Emit
CHECK_DEADLOCK FALSE
