------------------------------ MODULE MLString ------------------------------
(* Multi-line string literals: value, the indentation rule, and re-indentation.                                 *)
(* A literal text is the whole token: opening quotes, line break, interior lines, closing line (blanks+quotes). *)
EXTENDS Naturals, Integers, Sequences, Chars

\* Split at LF, CR and CRLF; terminators removed. Returns a sequence of lines.
RECURSIVE SplitLinesAcc(_, _, _, _)
SplitLinesAcc(s, p, cur, acc) ==
  IF p > Len(s) THEN Append(acc, cur)
  ELSE IF s[p] = CR THEN SplitLinesAcc(s, (IF At(s, p + 1) = LF THEN p + 2 ELSE p + 1), <<>>, Append(acc, cur))
  ELSE IF s[p] = LF THEN SplitLinesAcc(s, p + 1, <<>>, Append(acc, cur))
  ELSE SplitLinesAcc(s, p + 1, Append(cur, s[p]), acc)

SplitLines(s) == SplitLinesAcc(s, 1, <<>>, <<>>)

LeadingBlanksOf(l) == SubSeq(l, 1, SkipWhile(l, 1, "blank") - 1)
AllBlank(l) == \A k \in 1..Len(l) : Blank(l[k])
IsPrefix(p, l) == Len(p) <= Len(l) /\ \A k \in 1..Len(p) : l[k] = p[k]
AllQuotes(l) == \A k \in 1..Len(l) : l[k] = 39

\* the indentation of the closing quotes
Base(text) == LET ls == SplitLines(text) IN LeadingBlanksOf(ls[Len(ls)])

\* the closing line consists of blanks and quotes only
ClosingLineOk(text) ==
  LET ls == SplitLines(text)  last == ls[Len(ls)] IN
  Len(ls) >= 2 /\ AllQuotes(SubSeq(last, Len(LeadingBlanksOf(last)) + 1, Len(last)))

\* The indentation rule of the property: every interior line starts with the closing indentation, or is blank.
Qualifies(text) ==
  /\ ClosingLineOk(text)
  /\ LET ls == SplitLines(text)  b == Base(text) IN
     \A k \in 2..(Len(ls) - 1) : IsPrefix(b, ls[k]) \/ AllBlank(ls[k])

\* The value: interior lines with the closing indentation removed (a blank line that is shorter counts as empty)
Value(text) ==
  LET ls == SplitLines(text)  b == Base(text) IN
  [k \in 1..(Len(ls) - 2) |->
     LET l == ls[k + 1] IN IF IsPrefix(b, l) THEN SubSeq(l, Len(b) + 1, Len(l)) ELSE <<>>]

\* What the implementation accepts for re-indentation (named deviation from `Qualifies`): a line that does not
\* start with the closing indentation must itself be a prefix of that indentation.
ImplQualifies(text) ==
  /\ ClosingLineOk(text)
  /\ LET ls == SplitLines(text)  b == Base(text) IN
     \A k \in 2..(Len(ls) - 1) : IsPrefix(b, ls[k]) \/ IsPrefix(ls[k], b)

RECURSIVE JoinLines(_, _, _)
JoinLines(ls, k, nl) == IF k > Len(ls) THEN <<>> ELSE (IF k = 1 THEN <<>> ELSE nl) \o ls[k] \o JoinLines(ls, k + 1, nl)

\* Re-indentation: every interior line and the closing quotes are indented with `indent`; `nl` separates lines;
\* lines that are empty after removing the closing indentation stay empty.
Rewrite(text, indent, nl) ==
  LET ls == SplitLines(text)  b == Base(text)
      new == [k \in 1..Len(ls) |->
                IF k = 1 THEN ls[1]
                ELSE IF IsPrefix(b, ls[k])
                       THEN (LET rest == SubSeq(ls[k], Len(b) + 1, Len(ls[k])) IN IF rest = <<>> THEN <<>> ELSE indent \o rest)
                       ELSE <<>>]
  IN JoinLines(new, 1, nl)
=============================================================================
