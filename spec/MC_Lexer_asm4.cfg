SPECIFICATION Spec
CONSTANTS
  Alphabet = {10, 32, 34, 49, 59, 64, 97, 98, 100, 101, 104, 109, 110, 115}
  N = 4
  Prefixes <- PrefixesNone
INVARIANTS Lossless OneEofLast NonEmptyNonBlankStart Emit
PROPERTIES Progress
CHECK_DEADLOCK FALSE
