------------------------------ MODULE MC_Recon ------------------------------
(* The reconstructor over every table of two tokens (the second one is the end-of-file token) with small         *)
(* formatting counters, under the contracts of the earlier stages:                                               *)
(*   Space            : sp <= 1                                                                                  *)
(*   Wrap / zeroing   : nl <= 2 for tokens of solved lines, sp = 0 where nl > 0, no indentation where nl = 0     *)
(*   EofFmt           : the end-of-file token of a well-formed file has nl = 1, ind = cont = sp = 0                *)
(* With CONTRACTS = FALSE every counter combination is generated: TLC then shows the states in which a predicate *)
(* depends on what the earlier stages left (the "escape routes" of C08).                                          *)
EXTENDS Recon, TLC, Json, FiniteSets

CONSTANTS CONTRACTS, Settings, LF_LITERAL       \* LF_LITERAL: bug switch - the safety-net break is a bare LF

SettingsQuick == {[crlf |-> FALSE, tabs |-> FALSE, tw |-> 2, ci |-> 2], [crlf |-> TRUE, tabs |-> TRUE, tw |-> 3, ci |-> 1],
                  [crlf |-> TRUE, tabs |-> FALSE, tw |-> 0, ci |-> 3]}
SettingsThorough == [crlf : BOOLEAN, tabs : BOOLEAN, tw : {0, 1, 2, 4}, ci : {0, 1, 2, 3}]

VARIABLES cfg, toks, out, done
vars == <<cfg, toks, out, done>>

Kinds == {"word", "linecomment", "block"}
Text(k) == CASE k = "word" -> <<102, 111>> [] k = "linecomment" -> <<47, 47, 32, 99>> [] k = "block" -> <<123, 99, 125>> [] OTHER -> <<>>
WsChoices == {<<>>, <<SPACE>>, <<LF, SPACE, SPACE>>, <<LF, LF, LF>>}

Tok(k, ws, ign, nl, ind, cont, sp) == [kind |-> k, text |-> Text(k), ws |-> ws, ign |-> ign, nl |-> nl, ind |-> ind, cont |-> cont, sp |-> sp]
Contract(t) == ~t.ign => /\ t.sp <= 1 /\ t.nl <= 2 /\ (t.nl > 0 => t.sp = 0)
                         /\ (t.nl = 0 => t.ind = 0 /\ t.cont = 0)          \* a token that continues its line carries no indentation
EofContract(t) == ~t.ign => t.nl = 1 /\ t.ind = 0 /\ t.cont = 0 /\ t.sp = 0

\* first token of the file; a middle token; the end-of-file token. For a token that is formatted the original blanks do
\* not matter, for a verbatim one the counters do not.
T1 == {Tok(k, <<>>, g, 0, 0, 0, 0) : k \in Kinds, g \in BOOLEAN}
T2 == {Tok(k, w, TRUE, 0, 0, 0, 0) : k \in Kinds, w \in WsChoices}
      \cup {Tok(k, <<>>, FALSE, n, i, c, s) : k \in Kinds, n \in 0..3, i \in 0..1, c \in 0..1, s \in 0..2}
T3 == {Tok("eof", w, TRUE, 0, 0, 0, 0) : w \in {<<>>, <<LF, LF, LF>>, <<SPACE>>}}
      \cup {Tok("eof", <<>>, FALSE, n, 0, 0, s) : n \in 0..2, s \in 0..1}

Init == /\ cfg \in Settings
        /\ toks \in {<<t1, t2, t3>> : t1 \in T1, t2 \in T2, t3 \in T3}
        /\ CONTRACTS => Contract(toks[1]) /\ Contract(toks[2]) /\ EofContract(toks[3])
        /\ out = <<>> /\ done = FALSE

Emit == /\ ~done
        /\ out' = IF LF_LITERAL /\ cfg.crlf
                    THEN Reconstruct([cfg EXCEPT !.crlf = FALSE], toks)          \* the bug: breaks are always LF
                    ELSE Reconstruct(cfg, toks)
        /\ done' = TRUE
        /\ UNCHANGED <<cfg, toks>>

Next == Emit
Spec == Init /\ [][Next]_vars

---------------------------------------------------------------------------
\* positions of the rendered blanks of token i in `out` are known from the model itself
BlanksOf(i) == Blanks(cfg, toks[i], i > 1 /\ toks[i - 1].kind = "linecomment")

\* C09: every break the formatter emits is the configured one
EmittedBreaksConfigured ==
  done => \A i \in 1..Len(toks) : ~toks[i].ign =>
     LET b == BlanksOf(i) IN
     \A k \in 1..Len(b) : /\ (b[k] = LF /\ cfg.crlf) => (k > 1 /\ b[k - 1] = CR)
                          /\ (b[k] = CR) => cfg.crlf
\* and also the rendered text as a whole (this is what the bug switch violates)
OutBreaksConfigured ==
  done /\ (\A i \in 1..Len(toks) : ~toks[i].ign) =>
     \A k \in 1..Len(out) : (out[k] = LF /\ cfg.crlf) => (k > 1 /\ out[k - 1] = CR)

\* C08 (for non-ignored tokens, under the contracts): at most one space between tokens of a line, no blanks before a
\* break, at most one blank line, whole indentation units, nothing follows a line comment on its line
Canonical ==
  done /\ CONTRACTS => \A i \in 1..Len(toks) : ~toks[i].ign =>
     LET b == BlanksOf(i)
         nl == NLSeq(cfg)
         t == toks[i]
         brk == IF i > 1 /\ toks[i - 1].kind = "linecomment" /\ t.nl = 0 /\ t.kind # "eof" THEN 1 ELSE t.nl
     IN /\ brk <= 2
        /\ b = Times(nl, brk) \o Indentation(cfg, t.ind, t.cont) \o Rep(SPACE, t.sp)
        /\ brk = 0 => Len(b) <= 1
        /\ (i > 1 /\ toks[i - 1].kind = "linecomment" /\ t.kind # "eof") => brk >= 1

\* C10: the indentation of a line is (levels + ci * continuations) units
UnitsArithmetic ==
  done => \A i \in 1..Len(toks) : (~toks[i].ign /\ toks[i].nl > 0 /\ toks[i].sp = 0) =>
     LET b == BlanksOf(i)  tail == SubSeq(b, toks[i].nl * Len(NLSeq(cfg)) + 1, Len(b)) IN
     Len(tail) = (toks[i].ind + cfg.ci * toks[i].cont) * (IF cfg.tabs THEN 1 ELSE cfg.tw)

Emit2 == done => PrintT(<<"REPLAY", ToJson([cfg |-> cfg, toks |-> toks, out |-> out])>>)
=============================================================================
