------------------------------- MODULE Lexer -------------------------------
(* The Delphi scanner, written from the lexical rules of the language with the implementation's documented      *)
(* choices for malformed text as named cases. One operator per routine of the scanner; `NextToken` is one step  *)
(* of the scanning machine (see MC_Lexer for the machine itself and its invariants).                            *)
(*                                                                                                              *)
(* A text is a sequence of code points. A scanner state is [pos, asm, dot, first]:                              *)
(*   pos   - position of the first unread character                                                             *)
(*   asm   - inside an `asm ... end` block (entered by the keyword asm, left by the word end)                   *)
(*   dot   - the previous token that is not a comment or directive was `.`  (keywords after a dot are names)    *)
(*   first - no token has been produced yet (a comment that starts the file is "on its own line")               *)
(* A token is [ws, len, kind]: number of leading blanks, number of code points of content, kind name.          *)
EXTENDS Naturals, Integers, Sequences, Chars, Keywords

Tok(e, k) == [end |-> e, kind |-> k]

---------------------------------------------------------------------------
(* numbers *)

CountFullDecimal(s, p) == IF At(s, p) = 95 THEN p ELSE SkipWhile(s, p, "dec")

\* p: position after the first digit
DecNumber(s, p) ==
  LET a == SkipWhile(s, p, "dec")
      b == IF At(s, a) = 46 /\ CountFullDecimal(s, a + 1) > a + 1 THEN CountFullDecimal(s, a + 1) ELSE a
      c == IF At(s, b) \in {101, 69}
             THEN LET d == IF At(s, b + 1) \in {43, 45} THEN b + 2 ELSE b + 1 IN CountFullDecimal(s, d)
             ELSE b
  IN Tok(c, "NumberLiteral(Decimal)")

HexNumber(s, p) == Tok(SkipWhile(s, p, "hex"), "NumberLiteral(Hex)")
BinNumber(s, p) == Tok(SkipWhile(s, p, "bin"), "NumberLiteral(Binary)")

\* inside asm: digits and hex letters, then a radix suffix
AsmNumber(s, p) ==
  LET a == SkipWhile(s, p, "hex") IN
  IF At(s, a) \in {79, 111} THEN Tok(a + 1, "NumberLiteral(Octal)")
  ELSE IF At(s, a) \in {72, 104} THEN Tok(a + 1, "NumberLiteral(Hex)")
  ELSE IF At(s, a - 1) \in {66, 98} THEN Tok(a, "NumberLiteral(Binary)")
  ELSE Tok(a, "NumberLiteral(Decimal)")

---------------------------------------------------------------------------
(* text literals *)

\* the run of `#nn` / `#$hh` / `#%bb` escapes starting at p: [pos, ok]
RECURSIVE EscapedChars(_, _)
EscapedChars(s, p) ==
  IF At(s, p) # 35 THEN [pos |-> p, ok |-> TRUE]
  ELSE LET c == At(s, p + 1) IN
       IF (c >= 48 /\ c <= 57) \/ c = 95 THEN EscapedChars(s, SkipWhile(s, p + 2, "dec"))
       ELSE IF c = 36 THEN
            LET e == SkipWhile(s, p + 2, "hex") IN
            IF e = p + 2 THEN [pos |-> p + 2, ok |-> FALSE] ELSE EscapedChars(s, e)
       ELSE IF c = 37 THEN
            LET e == SkipWhile(s, p + 2, "bin") IN
            IF e = p + 2 THEN [pos |-> p + 2, ok |-> FALSE] ELSE EscapedChars(s, e)
       ELSE [pos |-> p + 1, ok |-> FALSE]

\* first position >= p holding a quote, LF or CR; Len(s)+1 if none
RECURSIVE QuoteOrBreak(_, _)
QuoteOrBreak(s, p) == IF p > Len(s) \/ s[p] \in {39, LF, CR} THEN p ELSE QuoteOrBreak(s, p + 1)

\* alternation of escape runs and quoted parts, from p
RECURSIVE StringParts(_, _)
StringParts(s, p) ==
  LET e == EscapedChars(s, p) IN
  IF ~e.ok THEN Tok(e.pos, "TextLiteral(Unterminated)")
  ELSE IF At(s, e.pos) # 39 THEN Tok(e.pos, "TextLiteral(SingleLine)")
  ELSE IF e.pos + 1 > Len(s) THEN Tok(e.pos + 1, "TextLiteral(Unterminated)")
  ELSE LET q == QuoteOrBreak(s, e.pos + 1) IN
       IF At(s, q) = 39 THEN StringParts(s, q + 1) ELSE Tok(q, "TextLiteral(Unterminated)")

\* first position >= p where n quotes start, or 0
RECURSIVE FindQuotes(_, _, _)
FindQuotes(s, p, n) ==
  IF p + n - 1 > Len(s) THEN 0
  ELSE IF \A k \in 0..(n - 1) : s[p + k] = 39 THEN p ELSE FindQuotes(s, p + 1, n)

\* p: position of the first quote or `#`
TextLiteral(s, p) ==
  LET qc == SkipWhile(s, p, "quote") - p IN
  IF qc >= 3 /\ qc % 2 = 1 /\ At(s, p + qc) \in {LF, CR}
    THEN LET f == FindQuotes(s, p + qc, qc) IN      \* multi-line literal: an odd run of >= 3 quotes, then a line break
         IF f = 0 THEN Tok(Len(s) + 1, "TextLiteral(Unterminated)") ELSE Tok(f + qc, "TextLiteral(MultiLine)")
    ELSE StringParts(s, p)

\* asm: "..." with backslash escapes; p: position after the opening quote
RECURSIVE AsmText(_, _)
AsmText(s, p) ==
  LET c == At(s, p) IN
  IF c = 92 THEN AsmText(s, IF p + 1 <= Len(s) THEN p + 2 ELSE p + 1)
  ELSE IF c = 34 THEN Tok(p + 1, "TextLiteral(Asm)")
  ELSE IF c = -1 \/ c = LF \/ c = CR THEN Tok(p, "TextLiteral(Unterminated)")
  ELSE AsmText(s, p + 1)

---------------------------------------------------------------------------
(* comments and directives *)

\* an unterminated comment or directive runs to the end of the text, minus trailing blanks
ToEof(s) == Len(s) + 1 - TrailingBlanks(s, Len(s))

\* end of a block comment whose body starts at p (0 if unterminated); which \in {"brace", "paren"}
BlockEnd(s, p, which) ==
  IF which = "brace" THEN (LET f == FindChar(s, p, 125) IN IF f = 0 THEN 0 ELSE f + 1)
  ELSE (LET f == FindPair(s, p, 42, 41) IN IF f = 0 THEN 0 ELSE f + 2)

LineCommentEnd(s, p) == SkipWhile(s, p, "notnl")

\* the position where scanning resumes after a block comment nested in a directive expression
BlockEndOrEof(s, p, which) == LET e == BlockEnd(s, p, which) IN IF e = 0 THEN ToEof(s) ELSE e

DirectiveName(s, p) == FoldSeq(SubSeq(s, p, SkipWhile(s, p, "dirname") - 1))

S_if == <<105, 102>>
S_ifdef == <<105, 102, 100, 101, 102>>
S_ifndef == <<105, 102, 110, 100, 101, 102>>
S_ifopt == <<105, 102, 111, 112, 116>>
S_elseif == <<101, 108, 115, 101, 105, 102>>
S_else == <<101, 108, 115, 101>>
S_ifend == <<105, 102, 101, 110, 100>>
S_endif == <<101, 110, 100, 105, 102>>

DirectiveKind(name) ==
  CASE name = S_if -> "ConditionalDirective(If)"
    [] name = S_ifdef -> "ConditionalDirective(Ifdef)"
    [] name = S_ifndef -> "ConditionalDirective(Ifndef)"
    [] name = S_ifopt -> "ConditionalDirective(Ifopt)"
    [] name = S_elseif -> "ConditionalDirective(Elseif)"
    [] name = S_else -> "ConditionalDirective(Else)"
    [] name = S_ifend -> "ConditionalDirective(Ifend)"
    [] name = S_endif -> "ConditionalDirective(Endif)"
    [] OTHER -> "CompilerDirective"

(* `{$if ...}` and `{$elseif ...}` contain an expression in which comments, strings and further directives nest. *)
(* DirEnd(s, p, which): end of a directive whose name starts at p (0 if unterminated).                           *)
(* ExprEnd(s, p, which): end of a directive expression scanned from p (0 if unterminated).                       *)
RECURSIVE DirEnd(_, _, _), ExprEnd(_, _, _)
DirEnd(s, p, which) ==
  LET q == SkipWhile(s, p, "dirname")
      name == DirectiveName(s, p)
  IN IF name = S_if \/ name = S_elseif THEN ExprEnd(s, q, which) ELSE BlockEnd(s, q, which)

ExprEnd(s, p, which) ==
  LET a == At(s, p)  b == At(s, p + 1)  c == At(s, p + 2) IN
  IF a = -1 THEN 0
  ELSE IF which = "paren" /\ a = 42 /\ b = 41 THEN p + 2
  ELSE IF which = "brace" /\ a = 125 THEN p + 1
  ELSE IF a = 40 /\ b = 42 /\ c = 36 THEN
       (LET e == DirEnd(s, p + 3, "paren") IN IF e = 0 THEN 0 ELSE ExprEnd(s, e, which))
  ELSE IF a = 123 /\ b = 36 THEN
       (LET e == DirEnd(s, p + 2, "brace") IN IF e = 0 THEN 0 ELSE ExprEnd(s, e, which))
  ELSE IF a = 40 /\ b = 42 THEN ExprEnd(s, BlockEndOrEof(s, p + 2, "paren"), which)
  ELSE IF a = 123 THEN ExprEnd(s, BlockEndOrEof(s, p + 1, "brace"), which)
  ELSE IF a = 39 THEN ExprEnd(s, TextLiteral(s, p).end, which)
  ELSE IF a = 47 /\ b = 47 THEN ExprEnd(s, LineCommentEnd(s, p + 2), which)
  ELSE ExprEnd(s, p + 1, which)

\* p: position of the directive name (after `{$` or `(*$`)
Directive(s, p, which) ==
  LET kind == DirectiveKind(DirectiveName(s, p))
      e == DirEnd(s, p, which)
  IN Tok(IF e = 0 THEN ToEof(s) ELSE e, kind)

\* p: position of the comment body; nlBefore: the comment is the first thing on its line
BlockComment(s, p, which, nlBefore) ==
  LET e == BlockEnd(s, p, which) IN
  IF e = 0 THEN Tok(ToEof(s), "Comment(MultilineBlock)")
  ELSE IF HasChar(s, p, e - 1, LF) THEN Tok(e, "Comment(MultilineBlock)")
  ELSE IF nlBefore THEN Tok(e, "Comment(IndividualBlock)")
  ELSE Tok(e, "Comment(InlineBlock)")

LineComment(s, p, nlBefore) ==
  Tok(LineCommentEnd(s, p), IF nlBefore THEN "Comment(IndividualLine)" ELSE "Comment(InlineLine)")

---------------------------------------------------------------------------
(* words *)

IdentEnd(s, p) == SkipWhile(s, p, "ident")

WordKind(s, p, e) ==
  LET w == FoldSeq(SubSeq(s, p, e - 1)) IN
  IF e - p <= MaxKeywordLen /\ w \in KeywordWords THEN KeywordKind[w] ELSE "Identifier"

S_end == <<101, 110, 100>>
S_asm == <<97, 115, 109>>

\* `&` escapes: p is the position of the first ampersand
Ampersand(s, p) ==
  LET o == SkipWhile(s, p, "amp")
      c == At(s, o)
  IN IF c = 36 THEN HexNumber(s, o + 1)
     ELSE IF c = 37 THEN BinNumber(s, o + 1)
     ELSE IF IsDigit(c) THEN DecNumber(s, o + 1)
     ELSE IF IsAlpha(c) \/ c = 95 THEN Tok(IdentEnd(s, o + 1), "Identifier")
     ELSE IF c >= 128 THEN Tok(IdentEnd(s, o + 1), "Identifier")      \* any non-ASCII character, U+3000 included
     ELSE Tok(o, "Unknown")

---------------------------------------------------------------------------
(* one token *)

\* The token whose content starts at p (a non-blank character). nlBefore as above; st is the scanner state.
\* Result: [end, kind]
TokenAt(s, p, st, nlBefore) ==
  LET c == s[p]  n == At(s, p + 1) IN
  CASE c = 40 -> IF n = 42 THEN (IF At(s, p + 2) = 36 THEN Directive(s, p + 3, "paren")
                                  ELSE BlockComment(s, p + 2, "paren", nlBefore))
                 ELSE IF n = 46 THEN Tok(p + 2, "Op(LBrack)") ELSE Tok(p + 1, "Op(LParen)")
    [] c = 123 -> IF n = 36 THEN Directive(s, p + 2, "brace") ELSE BlockComment(s, p + 1, "brace", nlBefore)
    [] c = 47 -> IF n = 47 THEN LineComment(s, p + 2, nlBefore) ELSE Tok(p + 1, "Op(Slash)")
    [] c = 58 -> IF n = 61 THEN Tok(p + 2, "Op(Assign)") ELSE Tok(p + 1, "Op(Colon)")
    [] c = 60 -> IF n = 61 THEN Tok(p + 2, "Op(LessEqual)")
                 ELSE IF n = 62 THEN Tok(p + 2, "Op(NotEqual)") ELSE Tok(p + 1, "Op(LessThan(Comp))")
    [] c = 62 -> IF n = 61 THEN Tok(p + 2, "Op(GreaterEqual)") ELSE Tok(p + 1, "Op(GreaterThan(Comp))")
    [] c = 46 -> IF n = 46 THEN Tok(p + 2, "Op(DotDot)")
                 ELSE IF n = 41 THEN Tok(p + 2, "Op(RBrack)") ELSE Tok(p + 1, "Op(Dot)")
    [] c = 43 -> Tok(p + 1, "Op(Plus)")
    [] c = 45 -> Tok(p + 1, "Op(Minus)")
    [] c = 42 -> Tok(p + 1, "Op(Star)")
    [] c = 44 -> Tok(p + 1, "Op(Comma)")
    [] c = 59 -> Tok(p + 1, "Op(Semicolon)")
    [] c = 61 -> Tok(p + 1, "Op(Equal(Comp))")
    [] c = 94 -> Tok(p + 1, "Op(Caret(Deref))")
    [] c = 64 -> IF st.asm THEN Tok(SkipWhile(s, p + 1, "asmlbl"), "Identifier") ELSE Tok(p + 1, "Op(AddressOf)")
    [] c = 91 -> Tok(p + 1, "Op(LBrack)")
    [] c = 93 -> Tok(p + 1, "Op(RBrack)")
    [] c = 41 -> Tok(p + 1, "Op(RParen)")
    [] c = 39 \/ c = 35 -> TextLiteral(s, p)
    [] c = 38 -> Ampersand(s, p)
    [] c = 37 -> BinNumber(s, p + 1)
    [] c = 36 -> HexNumber(s, p + 1)
    [] IsDigit(c) -> IF st.asm THEN AsmNumber(s, p + 1) ELSE DecNumber(s, p + 1)
    [] IsAlpha(c) ->
         LET e == IdentEnd(s, p + 1) IN
         IF st.asm THEN
           (IF c \in {97, 65, 101, 69} THEN
              (LET w == FoldSeq(SubSeq(s, p, e - 1)) IN
               IF w = S_end THEN Tok(e, "Keyword(End)") ELSE IF w = S_asm THEN Tok(e, "Keyword(Asm)") ELSE Tok(e, "Identifier"))
            ELSE Tok(e, "Identifier"))
         ELSE IF st.dot THEN Tok(e, "Identifier") ELSE Tok(e, WordKind(s, p, e))
    [] c = 95 -> Tok(IdentEnd(s, p + 1), "Identifier")
    [] c >= 128 -> Tok(IdentEnd(s, p + 1), "Identifier")
    [] c = 34 /\ st.asm -> AsmText(s, p + 1)
    [] OTHER -> Tok(p + 1, "Unknown")

IsCommentOrDirective(kind) ==
  kind \in {"CompilerDirective", "Comment(InlineBlock)", "Comment(IndividualBlock)", "Comment(MultilineBlock)",
            "Comment(InlineLine)", "Comment(IndividualLine)",
            "ConditionalDirective(If)", "ConditionalDirective(Ifdef)", "ConditionalDirective(Ifndef)",
            "ConditionalDirective(Ifopt)", "ConditionalDirective(Elseif)", "ConditionalDirective(Else)",
            "ConditionalDirective(Ifend)", "ConditionalDirective(Endif)"}

InitState == [pos |-> 1, asm |-> FALSE, dot |-> FALSE, first |-> TRUE]

AtEof(s, st) == SkipWhile(s, st.pos, "blank") > Len(s)

\* One step of the scanner at state st (not at end of text): the token and the next state.
NextToken(s, st) ==
  LET p == SkipWhile(s, st.pos, "blank")
      nlBefore == st.first \/ HasChar(s, st.pos, p - 1, LF)
      t == TokenAt(s, p, st, nlBefore)
      real == ~IsCommentOrDirective(t.kind)
      asm2 == IF st.asm THEN ~(t.kind = "Keyword(End)") ELSE
                (IF IsAlpha(s[p]) THEN t.kind = "Keyword(Asm)" ELSE FALSE)
  IN [tok |-> [ws |-> p - st.pos, len |-> t.end - p, kind |-> t.kind],
      st |-> [pos |-> t.end, asm |-> asm2, dot |-> IF real THEN t.kind = "Op(Dot)" ELSE st.dot, first |-> FALSE]]

EofToken(s, st) == [ws |-> Len(s) + 1 - st.pos, len |-> 0, kind |-> "Eof"]

\* the whole scan
RECURSIVE LexFrom(_, _, _)
LexFrom(s, st, acc) ==
  IF AtEof(s, st) THEN Append(acc, EofToken(s, st))
  ELSE LET n == NextToken(s, st) IN LexFrom(s, n.st, Append(acc, n.tok))

Lex(s) == LexFrom(s, InitState, <<>>)
=============================================================================
