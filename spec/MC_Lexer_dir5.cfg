SPECIFICATION Spec
CONSTANTS
  Alphabet = {10, 32, 36, 39, 40, 41, 42, 47, 101, 102, 105, 108, 115, 123, 125}
  N = 5
  Prefixes <- PrefixesNone
INVARIANTS Lossless OneEofLast NonEmptyNonBlankStart Emit
PROPERTIES Progress
CHECK_DEADLOCK FALSE
