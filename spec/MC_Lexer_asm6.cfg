SPECIFICATION Spec
CONSTANTS
  Alphabet = {10, 32, 34, 49, 64, 97, 100, 101, 104, 109, 110, 115}
  N = 6
  Prefixes <- PrefixesNone
INVARIANTS Lossless OneEofLast NonEmptyNonBlankStart Emit
PROPERTIES Progress
CHECK_DEADLOCK FALSE
