SPECIFICATION Spec
CONSTANTS
  Alphabet = {10, 32, 35, 36, 39, 49, 97}
  N = 7
  Prefixes <- PrefixesNone
INVARIANTS Lossless OneEofLast NonEmptyNonBlankStart Emit
PROPERTIES Progress
CHECK_DEADLOCK FALSE
