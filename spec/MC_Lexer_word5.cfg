SPECIFICATION Spec
CONSTANTS
  Alphabet = {32, 38, 46, 65, 68, 69, 78, 95, 97, 98, 101, 103, 105, 110, 233, 12288}
  N = 5
  Prefixes <- PrefixesNone
INVARIANTS Lossless OneEofLast NonEmptyNonBlankStart Emit
PROPERTIES Progress
CHECK_DEADLOCK FALSE
