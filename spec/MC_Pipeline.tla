----------------------------- MODULE MC_Pipeline -----------------------------
(* Any behaviour that the stage frames allow preserves every token (C01) and leaves verbatim tokens alone (C07):  *)
(* a table of two tokens over a handful of kinds and texts; at each of the five formatter stages the table is      *)
(* replaced by ANY table the stage's frame admits. REMOVER is a bug switch: a stage that may drop a token.          *)
EXTENDS Pipeline, TLC, FiniteSets

CONSTANTS REMOVER

VARIABLES first, tab, stage
vars == <<first, tab, stage>>

Texts == {<<65, 98>>, <<47, 47, 120, 32>>, <<123, 36, 97, 125>>, <<39, 39, 39, 10, 32, 97, 10, 32, 39, 39, 39>>}     \* Ab  //x_  {$a}  '''..'''
KindOf(t) == CASE t = <<65, 98>> -> "Keyword(Begin)" [] t = <<47, 47, 120, 32>> -> "Comment(InlineLine)"
               [] t = <<123, 36, 97, 125>> -> "CompilerDirective" [] OTHER -> "TextLiteral(MultiLine)"
\* the texts a stage might write (all case / blank variants of the above)
Variants(t) == {t, FoldSeq(t), <<47, 47, 32, 120>>, <<47, 47, 120>>, <<47, 47>>, <<123, 36, 65, 125>>,
                <<39, 39, 39, 10, 97, 10, 39, 39, 39>>, <<39, 39, 39, 10, 10, 39, 39, 39>>}
Row(t, g, n, s) == [kind |-> KindOf(t), text |-> t, ign |-> g, nl |-> n, ind |-> 0, cont |-> 0, sp |-> s]
Rows == {Row(t, g, n, s) : t \in Texts, g \in BOOLEAN, n \in 0..1, s \in 0..1}
EofRow == [kind |-> "Eof", text |-> <<>>, ign |-> FALSE, nl |-> 0, ind |-> 0, cont |-> 0, sp |-> 0]

Init == /\ \E r \in Rows : first = <<r, EofRow>>
        /\ tab = first /\ stage = 0

\* every table reachable in one step from `tab` under the frame of stage k
Candidates(A) == {<<[A[1] EXCEPT !.text = v, !.nl = n, !.sp = s], [A[2] EXCEPT !.nl = m]>> : v \in Variants(A[1].text), n \in 0..1, s \in 0..1, m \in 0..1}

Step == /\ stage < 5
        /\ \E B \in Candidates(tab) : FrameFormat(stage + 1, tab, B) /\ tab' = B
        /\ stage' = stage + 1
        /\ UNCHANGED first

Remove == /\ REMOVER /\ stage < 5 /\ Len(tab) = 2
          /\ tab' = <<tab[2]>> /\ stage' = stage + 1 /\ UNCHANGED first

Next == Step \/ Remove
Spec == Init /\ [][Next]_vars

\* C01 / C07 on the table
Preserved == Len(tab) = Len(first) /\ \A i \in 1..Len(tab) : TokenPreserved(first[i], tab[i])
=============================================================================
