------------------------------ MODULE MC_Reflow ------------------------------
(* The re-indentation loop and the queue of lines to wrap again, over every forest of at most three logical     *)
(* lines with at most two multi-line literals each. One action per step of the loop, as in the code:            *)
(* format_multiline_strings (per literal: rewrite, raise the flag), the walk to the top-level ancestor, the     *)
(* de-duplicated queue, the second wrapping.                                                                    *)
EXTENDS Reflow, TLC

CONSTANTS OVERWRITE_FLAG,   \* bug switch: the flag is assigned per literal instead of accumulated
          NO_ROOT           \* bug switch: the changed line itself is queued, not its top-level ancestor

LitSeqs == {<<>>, <<TRUE>>, <<FALSE>>, <<TRUE, TRUE>>, <<TRUE, FALSE>>, <<FALSE, TRUE>>, <<FALSE, FALSE>>}
Forests == {f \in [1..3 -> [parent : 0..2, lits : LitSeqs]] : \A l \in 1..3 : f[l].parent < l}

VARIABLES lines, li, ki, changed, rewritten, queue, wrappedAgain, phase
vars == <<lines, li, ki, changed, rewritten, queue, wrappedAgain, phase>>

Init == /\ lines \in Forests /\ li = 1 /\ ki = 1 /\ changed = FALSE /\ rewritten = {} /\ queue = {} /\ wrappedAgain = {} /\ phase = "strings"

Literal == /\ phase = "strings" /\ li <= 3 /\ ki <= Len(lines[li].lits)
           /\ LET d == lines[li].lits[ki] IN
              /\ rewritten' = IF d THEN rewritten \cup {<<li, ki>>} ELSE rewritten
              /\ changed' = IF OVERWRITE_FLAG THEN d ELSE (changed \/ d)
           /\ ki' = ki + 1
           /\ UNCHANGED <<lines, li, queue, wrappedAgain, phase>>

EndLine == /\ phase = "strings" /\ li <= 3 /\ ki > Len(lines[li].lits)
           /\ queue' = IF changed THEN queue \cup {IF NO_ROOT THEN li ELSE RootOf(lines, li)} ELSE queue
           /\ li' = li + 1 /\ ki' = 1 /\ changed' = FALSE
           /\ UNCHANGED <<lines, rewritten, wrappedAgain, phase>>

StartReflow == /\ phase = "strings" /\ li > 3
               /\ phase' = "reflow"
               /\ UNCHANGED <<lines, li, ki, changed, rewritten, queue, wrappedAgain>>

WrapAgain == /\ phase = "reflow" /\ queue # wrappedAgain
             /\ \E l \in queue \ wrappedAgain : wrappedAgain' = wrappedAgain \cup {l}
             /\ UNCHANGED <<lines, li, ki, changed, rewritten, queue, phase>>

Finish == /\ phase = "reflow" /\ queue = wrappedAgain /\ phase' = "done"
          /\ UNCHANGED <<lines, li, ki, changed, rewritten, queue, wrappedAgain>>

Next == Literal \/ EndLine \/ StartReflow \/ WrapAgain \/ Finish
Spec == Init /\ [][Next]_vars /\ WF_vars(Next)

\* every literal that was rewritten has its top-level line wrapped again, and nothing else is
QueueIsRoots == phase \in {"reflow", "done"} => queue = ToReflow(lines)
RewrittenCovered == phase = "done" => \A p \in rewritten : RootOf(lines, p[1]) \in wrappedAgain
OnlyTopLevel == \A l \in queue : lines[l].parent = 0
Terminates == <>(phase = "done")
=============================================================================
