------------------------------ MODULE Pipeline ------------------------------
(* The formatting pipeline as a sequence of stages over ONE token table; each stage is an action that may write    *)
(* only what its contract (frame) allows. The frames are stated once, as relations between the table before and    *)
(* after a stage, and used twice: by MC_Pipeline (any behaviour the frames allow keeps C01 / C07) and by           *)
(* TraceStages (the stage snapshots recorded from the real `format_into_buf` satisfy the frames).                  *)
(*                                                                                                              *)
(* A table row: [kind, text, ign, nl, ind, cont, sp]  (text: code points; counters only exist from InitFmt on).     *)
(* Stage names as recorded by the hook: lex, parse, consolidate*, ignore, void, initfmt, format1..format5.          *)
EXTENDS Naturals, Sequences, Chars, Keywords

CommentKinds == {"Comment(InlineBlock)", "Comment(IndividualBlock)", "Comment(MultilineBlock)", "Comment(InlineLine)", "Comment(IndividualLine)"}
LineCommentKinds == {"Comment(InlineLine)", "Comment(IndividualLine)"}
DirectiveKinds == {"CompilerDirective", "ConditionalDirective(If)", "ConditionalDirective(Ifdef)", "ConditionalDirective(Ifndef)",
                   "ConditionalDirective(Ifopt)", "ConditionalDirective(Elseif)", "ConditionalDirective(Else)",
                   "ConditionalDirective(Ifend)", "ConditionalDirective(Endif)"}
KeywordKinds == {KeywordKind[w] : w \in KeywordWords}

SameShape(A, B) == Len(A) = Len(B)
TextSame(A, B, i) == A[i].text = B[i].text
FmtSame(A, B, i) == A[i].nl = B[i].nl /\ A[i].ind = B[i].ind /\ A[i].cont = B[i].cont /\ A[i].sp = B[i].sp
IgnSame(A, B, i) == A[i].ign = B[i].ign

\* the refinements of a token's kind that parsing / consolidation may apply (is_keyword_family: same word, other role)
KindFamily(k) ==
  CASE k \in {"Op(Equal(Comp))", "Op(Equal(Decl))"} -> "eq"
    [] k \in {"Op(LessThan(Comp))", "Op(LessThan(Generic))"} -> "lt"
    [] k \in {"Op(GreaterThan(Comp))", "Op(GreaterThan(Generic))"} -> "gt"
    [] k \in {"Op(Caret(Deref))", "Op(Caret(Type))"} -> "caret"
    [] OTHER -> k

\* text-preserving stages: nothing but kinds / lines / marks may change
FrameNoText(A, B) == SameShape(A, B) /\ \A i \in 1..Len(A) : TextSame(A, B, i)

\* Space: only the space counter
FrameSpace(A, B) == SameShape(A, B) /\ \A i \in 1..Len(A) :
   TextSame(A, B, i) /\ IgnSame(A, B, i) /\ A[i].kind = B[i].kind /\ A[i].nl = B[i].nl /\ A[i].ind = B[i].ind /\ A[i].cont = B[i].cont

\* LowercaseKeywords: the text of a keyword token that is not verbatim may be replaced by its lower-case form
FrameLower(A, B) == SameShape(A, B) /\ \A i \in 1..Len(A) :
   /\ FmtSame(A, B, i) /\ IgnSame(A, B, i) /\ A[i].kind = B[i].kind
   /\ (~TextSame(A, B, i)) => (~A[i].ign /\ B[i].text = FoldSeq(A[i].text))

\* CommentFormatter: line comments and directives that are not verbatim; non-blank characters kept (case: directive names)
FrameComments(A, B) == SameShape(A, B) /\ \A i \in 1..Len(A) :
   /\ FmtSame(A, B, i) /\ IgnSame(A, B, i) /\ A[i].kind = B[i].kind
   /\ (~TextSame(A, B, i)) =>
        /\ ~A[i].ign /\ A[i].kind \in LineCommentKinds \cup DirectiveKinds
        /\ FoldSeq(NonBlank(B[i].text)) = FoldSeq(NonBlank(A[i].text))
        /\ A[i].kind \in LineCommentKinds => NonBlank(B[i].text) = NonBlank(A[i].text)

\* EofNewline: the counters of the end-of-file token only
FrameEof(A, B) == SameShape(A, B) /\ \A i \in 1..Len(A) :
   TextSame(A, B, i) /\ IgnSame(A, B, i) /\ A[i].kind = B[i].kind /\ (A[i].kind # "Eof" => FmtSame(A, B, i))

\* the wrapper: counters of any token; the text of multi-line strings that are not verbatim (non-blank characters kept)
FrameWrap(A, B) == SameShape(A, B) /\ \A i \in 1..Len(A) :
   /\ IgnSame(A, B, i) /\ A[i].kind = B[i].kind
   /\ (~TextSame(A, B, i)) => (~A[i].ign /\ A[i].kind = "TextLiteral(MultiLine)" /\ NonBlank(B[i].text) = NonBlank(A[i].text))

\* the frame of the k-th formatter of the shipped composition
FrameFormat(k, A, B) ==
  CASE k = 1 -> FrameSpace(A, B) [] k = 2 -> FrameLower(A, B) [] k = 3 -> FrameComments(A, B)
    [] k = 4 -> FrameEof(A, B) [] k = 5 -> FrameWrap(A, B) [] OTHER -> FALSE

\* what the pipeline as a whole guarantees for a token, if every stage keeps to its frame (C01 per token, C07)
TokenPreserved(first, last) ==
  /\ FoldSeq(NonBlank(last.text)) = FoldSeq(NonBlank(first.text))
  /\ last.ign => last.text = first.text
=============================================================================
