SPECIFICATION Spec
CONSTANTS
  OVERWRITE_FLAG = TRUE
  NO_ROOT = FALSE
INVARIANTS QueueIsRoots RewrittenCovered OnlyTopLevel
PROPERTIES Terminates
CHECK_DEADLOCK FALSE
