----------------------------- MODULE CliWorkers -----------------------------
(* Batch formatting by a pool of workers, each with a reusable input buffer (C18).                               *)
(*                                                                                                              *)
(* A worker repeatedly takes a file that nobody has taken yet (work stealing: any idle worker, any file),        *)
(* clears its buffer, reads the file INTO the buffer, decodes the buffer, formats, writes the result, reports.   *)
(* The buffer is modelled as the sequence of files whose bytes it holds; the decoded text is what is in the      *)
(* buffer, so stale bytes of a previous file corrupt the result. Failing files (missing / undecodable) set the   *)
(* error flag and do not stop the others.                                                                        *)
EXTENDS Naturals, Sequences, FiniteSets, TLC

CONSTANTS Files, Workers, Failing, NO_CLEAR
ASSUME Failing \subseteq Files

VARIABLES todo,     \* files not yet taken
          cur,      \* Workers -> file or "idle"
          buf,      \* Workers -> sequence of files whose bytes are in the buffer
          pc,       \* Workers -> "idle" | "taken" | "cleared" | "read" | "decoded" | "formatted"
          result,   \* Files -> what was written: a sequence of files (the text that was formatted) or <<>> (untouched)
          err
vars == <<todo, cur, buf, pc, result, err>>

Init == /\ todo = Files
        /\ cur = [w \in Workers |-> "idle"]
        /\ buf = [w \in Workers |-> <<>>]
        /\ pc = [w \in Workers |-> "idle"]
        /\ result = [f \in Files |-> <<>>]
        /\ err = FALSE

Take(w, f) == /\ pc[w] = "idle" /\ f \in todo
              /\ todo' = todo \ {f} /\ cur' = [cur EXCEPT ![w] = f] /\ pc' = [pc EXCEPT ![w] = "taken"]
              /\ UNCHANGED <<buf, result, err>>

ClearBuf(w) == /\ pc[w] = "taken"
               /\ buf' = [buf EXCEPT ![w] = IF NO_CLEAR THEN buf[w] ELSE <<>>]
               /\ pc' = [pc EXCEPT ![w] = "cleared"]
               /\ UNCHANGED <<todo, cur, result, err>>

\* a missing file fails at open: nothing is read
OpenRead(w) == /\ pc[w] = "cleared"
               /\ IF cur[w] \in Failing
                    THEN /\ err' = TRUE /\ pc' = [pc EXCEPT ![w] = "idle"] /\ cur' = [cur EXCEPT ![w] = "idle"] /\ UNCHANGED buf
                    ELSE /\ buf' = [buf EXCEPT ![w] = Append(buf[w], cur[w])] /\ pc' = [pc EXCEPT ![w] = "read"] /\ UNCHANGED <<err, cur>>
               /\ UNCHANGED <<todo, result>>

Decode(w) == /\ pc[w] = "read" /\ pc' = [pc EXCEPT ![w] = "decoded"] /\ UNCHANGED <<todo, cur, buf, result, err>>
Format(w) == /\ pc[w] = "decoded" /\ pc' = [pc EXCEPT ![w] = "formatted"] /\ UNCHANGED <<todo, cur, buf, result, err>>

WriteReport(w) == /\ pc[w] = "formatted"
                  /\ result' = [result EXCEPT ![cur[w]] = buf[w]]
                  /\ pc' = [pc EXCEPT ![w] = "idle"] /\ cur' = [cur EXCEPT ![w] = "idle"]
                  /\ UNCHANGED <<todo, buf, err>>

Next == \E w \in Workers : (\E f \in Files : Take(w, f)) \/ ClearBuf(w) \/ OpenRead(w) \/ Decode(w) \/ Format(w) \/ WriteReport(w)
Spec == Init /\ [][Next]_vars /\ WF_vars(Next)

---------------------------------------------------------------------------
Done == todo = {} /\ \A w \in Workers : pc[w] = "idle"
\* what is decoded is exactly the current file
NoStaleBytes == \A w \in Workers : pc[w] \in {"read", "decoded", "formatted"} => buf[w] = <<cur[w]>>
\* every file gets the result it gets alone; failing files are untouched and do not stop the others
BatchEqualsSolo == Done => \A f \in Files : result[f] = IF f \in Failing THEN <<>> ELSE <<f>>
ExitStatus == Done => (err <=> Failing # {})
Terminates == <>Done
=============================================================================
