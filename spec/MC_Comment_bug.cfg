SPECIFICATION Spec
CONSTANTS
  Alphabet = {32, 9, 11, 127, 1, 97, 45, 47, 233, 12288}
  N = 3
  Kind = "line"
  Prefixes <- PrefixesNone
  TRIM_CONTROL = TRUE
INVARIANTS NonBlankKept CaseOnlyInName Fixpoint NoTrailingBlanks
CHECK_DEADLOCK FALSE
