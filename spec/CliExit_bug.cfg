SPECIFICATION Spec
CONSTANTS
  FailCounts = {0, 1, 2, 255, 256, 257, 512}
  GoodCounts = {0, 1, 3}
  COUNT_AS_BYTE = TRUE
INVARIANTS NonZeroIffFailed Emit
CHECK_DEADLOCK FALSE
