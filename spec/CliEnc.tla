------------------------------- MODULE CliEnc -------------------------------
(* Encodings and byte-order marks (C17). UTF-8 and UTF-16 are defined here from their specifications, so the    *)
(* model is an independent oracle for the bytes; windows-1252 is given for the characters used.                 *)
(*                                                                                                              *)
(* A scenario: a short text t inside the fixed program  x:='t';  stored in some encoding, with or without a    *)
(* BOM, possibly damaged, and an `encoding` option. Steps: SniffBom, Decode, Format, Encode+Write.              *)
(* For this family of programs formatting is  x:='t';  |->  x := 't';<LF>  whatever t is.                       *)
EXTENDS Naturals, Integers, Sequences, FiniteSets, TLC, Json

Chars == {97, 233, 8364, 12288, 128515}      \* a, e-acute, euro sign, ideographic space, an emoji outside the BMP
Stored == {"utf8", "utf8_bom", "utf16le_bom", "utf16be_bom", "utf16le", "utf16be", "cp1252"}
Options == {"utf-8", "utf-16le", "utf-16be", "windows-1252"}
Damages == {"none", "truncated", "bad_byte"}

Utf8(c) == IF c < 128 THEN <<c>>
           ELSE IF c < 2048 THEN <<192 + c \div 64, 128 + (c % 64)>>
           ELSE IF c < 65536 THEN <<224 + c \div 4096, 128 + ((c \div 64) % 64), 128 + (c % 64)>>
           ELSE <<240 + c \div 262144, 128 + ((c \div 4096) % 64), 128 + ((c \div 64) % 64), 128 + (c % 64)>>
Units16(c) == IF c < 65536 THEN <<c>> ELSE << 55296 + (c - 65536) \div 1024, 56320 + ((c - 65536) % 1024) >>
LE(u) == <<u % 256, u \div 256>>
BE(u) == <<u \div 256, u % 256>>
Cp1252(c) == IF c < 128 THEN <<c>> ELSE IF c = 233 THEN <<233>> ELSE IF c = 8364 THEN <<128>> ELSE <<>>   \* <<>> = not representable

RECURSIVE Flat(_)
Flat(ss) == IF ss = <<>> THEN <<>> ELSE Head(ss) \o Flat(Tail(ss))

EncName(e) == CASE e \in {"utf8", "utf8_bom"} -> "utf-8" [] e \in {"utf16le", "utf16le_bom"} -> "utf-16le"
                [] e \in {"utf16be", "utf16be_bom"} -> "utf-16be" [] e = "cp1252" -> "windows-1252"
Enc(name, text) ==
  CASE name = "utf-8" -> Flat([i \in 1..Len(text) |-> Utf8(text[i])])
    [] name = "utf-16le" -> Flat([i \in 1..Len(text) |-> Flat([k \in 1..Len(Units16(text[i])) |-> LE(Units16(text[i])[k])])])
    [] name = "utf-16be" -> Flat([i \in 1..Len(text) |-> Flat([k \in 1..Len(Units16(text[i])) |-> BE(Units16(text[i])[k])])])
    [] name = "windows-1252" -> Flat([i \in 1..Len(text) |-> Cp1252(text[i])])
Representable(name, text) == name # "windows-1252" \/ \A i \in 1..Len(text) : Cp1252(text[i]) # <<>>
Bom(e) == CASE e = "utf8_bom" -> <<239, 187, 191>> [] e = "utf16le_bom" -> <<255, 254>> [] e = "utf16be_bom" -> <<254, 255>> [] OTHER -> <<>>

A(s) == s            \* readability
Pre == <<120, 58, 61, 39>>               \* x:='
Post == <<39, 59>>                       \* ';
FPre == <<120, 32, 58, 61, 32, 39>>      \* x := '
FPost == <<39, 59, 10>>                  \* ';<LF>
\* `lead`: the text itself may begin with U+FEFF (ZERO WIDTH NO-BREAK SPACE). After a real BOM that is a "double BOM";
\* without one (UTF-16 given by the option, windows-1252 cannot hold it) it is still text. Only the first BOM is a BOM:
\* the second U+FEFF is the first character of an identifier and must come back.
Leads == {<<>>, <<65279>>}

VARIABLES text, stored, option, damage, lead,
          bytes,        \* the file
          sniffed,      \* encoding chosen after looking at the BOM
          decoded,      \* "none" | "ok" | "malformed"
          phase, error
vars == <<text, stored, option, damage, lead, bytes, sniffed, decoded, phase, error>>
Program(t) == lead \o Pre \o t \o Post
Formatted(t) == lead \o FPre \o t \o FPost

Texts == {<<>>} \cup {<<a>> : a \in Chars} \cup {<<a, b>> : a \in Chars, b \in {97, 128515}}

Damage(b, d, e) ==
  CASE d = "none" -> b
    [] d = "truncated" -> SubSeq(b, 1, Len(b) - 1)
    [] d = "bad_byte" -> IF EncName(e) = "utf-8" THEN SubSeq(b, 1, Len(b) - 2) \o <<255>> \o SubSeq(b, Len(b) - 1, Len(b))
                         ELSE IF EncName(e) = "utf-16le" THEN SubSeq(b, 1, Len(b) - 4) \o <<0, 216>> \o SubSeq(b, Len(b) - 3, Len(b))   \* a lone high surrogate
                         ELSE IF EncName(e) = "utf-16be" THEN SubSeq(b, 1, Len(b) - 4) \o <<216, 0>> \o SubSeq(b, Len(b) - 3, Len(b))
                         ELSE b

\* truncation only damages a text whose last unit is cut in the middle
Malformed(t, e, d) ==
  CASE d = "none" -> FALSE
    [] d = "truncated" -> EncName(e) \in {"utf-16le", "utf-16be"}          \* an odd number of bytes; (utf-8 / cp1252: the last byte is the ASCII `;`)
    [] d = "bad_byte" -> EncName(e) # "windows-1252"

Init == /\ text \in Texts /\ stored \in Stored /\ option \in Options /\ damage \in Damages /\ lead \in Leads
        /\ Representable(EncName(stored), text)
        /\ lead # <<>> => EncName(stored) # "windows-1252"
        \* U+FEFF at the very start of a file without BOM would BE a BOM: that is the stored form "<enc>_bom"
        /\ lead # <<>> => Bom(stored) # <<>>
        \* a file without BOM is read with the option: the scenario stores it in that encoding
        /\ Bom(stored) = <<>> => option = EncName(stored)
        /\ damage = "truncated" => EncName(stored) \in {"utf-16le", "utf-16be"}
        /\ damage = "bad_byte" => EncName(stored) # "windows-1252"
        /\ bytes = Bom(stored) \o Damage(Enc(EncName(stored), Program(text)), damage, stored)
        /\ sniffed = "none" /\ decoded = "none" /\ phase = "start" /\ error = FALSE

HasPrefix(b, p) == Len(b) >= Len(p) /\ SubSeq(b, 1, Len(p)) = p

\* a BOM decides the encoding and overrides the option
SniffBom == /\ phase = "start"
            /\ sniffed' = IF HasPrefix(bytes, <<239, 187, 191>>) THEN "utf-8"
                          ELSE IF HasPrefix(bytes, <<255, 254>>) THEN "utf-16le"
                          ELSE IF HasPrefix(bytes, <<254, 255>>) THEN "utf-16be" ELSE option
            /\ phase' = "sniffed"
            /\ UNCHANGED <<text, stored, option, damage, lead, bytes, decoded, error>>

Decode == /\ phase = "sniffed"
          /\ IF Malformed(text, stored, damage)
               THEN decoded' = "malformed" /\ error' = TRUE /\ phase' = "done"
               ELSE decoded' = "ok" /\ UNCHANGED error /\ phase' = "decoded"
          /\ UNCHANGED <<text, stored, option, damage, lead, bytes, sniffed>>

\* the result is written in the encoding it was read in, behind the same BOM
Write == /\ phase = "decoded"
         /\ bytes' = Bom(stored) \o Enc(sniffed, Formatted(text))
         /\ phase' = "done"
         /\ UNCHANGED <<text, stored, option, damage, lead, sniffed, decoded, error>>

Next == SniffBom \/ Decode \/ Write
Spec == Init /\ [][Next]_vars

---------------------------------------------------------------------------
BomDecides == phase # "start" /\ Bom(stored) # <<>> => sniffed = EncName(stored)
RoundTrip == phase = "done" /\ ~error => bytes = Bom(stored) \o Enc(EncName(stored), Formatted(text))
MalformedUntouched == phase = "done" /\ error => bytes = Bom(stored) \o Damage(Enc(EncName(stored), Program(text)), damage, stored)

Emit == phase = "done" => PrintT(<<"REPLAY", ToJson([stored |-> stored, option |-> option, damage |-> damage, text |-> lead \o text,
            input |-> Bom(stored) \o Damage(Enc(EncName(stored), Program(text)), damage, stored), error |-> error, output |-> bytes])>>)
=============================================================================
