------------------------------ MODULE CliModes ------------------------------
(* The command line front-end seen as a machine over a small file system: three modes, five ways of naming     *)
(* the input, and per file the steps the orchestrator takes (C16; the worker interleavings are in CliWorkers).  *)
(*                                                                                                              *)
(* A file is abstracted to a content class; its bytes are a sequence of symbols whose length is what matters:   *)
(* "o" = a byte of the original text, "n" = a byte of the formatted text.                                       *)
(*   formatted : already formatted (result = content)        shrinks : result shorter than the content          *)
(*   grows     : result longer                               samelen : result differs, same length             *)
(*   empty     : empty file (result is one line terminator)  undecodable / missing / dangling : failures       *)
(*                                                                                                              *)
(* Refinement at materialisation (lib/cli.py, run_modes_scenario). The model is insensitive to, and every final  *)
(* state is therefore replayed under several values of: the file names (also two names that differ in letter     *)
(* case only, explicit paths with other extensions, spaces and non-ASCII letters), the sizes (a first file of    *)
(* 300 KiB or 1.3 MiB followed by the others on one worker thread), the stored encoding (UTF-8 or UTF-16LE       *)
(* behind a BOM), the form of an undecodable file (invalid UTF-8, UTF-16 with a dangling byte, a lone            *)
(* surrogate) and --log-level. The number of failing paths is the subject of CliExit.tla.                        *)
EXTENDS Naturals, Sequences, FiniteSets, TLC, Json

CONSTANTS Files,        \* set of file identifiers
          NO_SETLEN,    \* bug switch: the file is not truncated to the new length
          NO_SEEK       \* bug switch: writing does not start at the beginning of the file

Modes == {"files", "stdout", "check"}
Forms == {"file", "dir", "glob", "files_from", "stdin"}
OkClasses == {"formatted", "shrinks", "grows", "samelen", "empty"}
FailClasses == {"undecodable", "missing", "dangling"}

Rep(x, n) == [i \in 1..n |-> x]
OldBytes(c) == CASE c = "formatted" -> Rep("n", 3) [] c = "shrinks" -> Rep("o", 4) [] c = "grows" -> Rep("o", 2)
                 [] c = "samelen" -> Rep("o", 3) [] c = "empty" -> <<>> [] c = "undecodable" -> Rep("x", 3)
                 [] OTHER -> <<>>
NewBytes(c) == CASE c = "formatted" -> Rep("n", 3) [] c = "shrinks" -> Rep("n", 2) [] c = "grows" -> Rep("n", 4)
                 [] c = "samelen" -> Rep("n", 3) [] c = "empty" -> Rep("n", 1) [] OTHER -> <<>>

VARIABLES class,     \* Files -> class
          mode, form,
          bytes,     \* Files -> current bytes of the file (<<>> for missing ones)
          pos,       \* Files -> position of the open file handle
          pc,        \* Files -> "start", "read", "decoded", "formatted", "seeked", "written", "done"
          stdout,    \* sequence of <<file, bytes>> printed
          err,       \* the error flag
          usage,     \* the invocation was rejected before anything ran
          exited
vars == <<class, mode, form, bytes, pos, pc, stdout, err, usage, exited>>

ClassesFor(f) == IF f \in {"dir", "glob"} THEN OkClasses \cup {"undecodable"}
                 ELSE IF f = "stdin" THEN OkClasses \cup {"undecodable"}
                 ELSE OkClasses \cup FailClasses

Init == /\ mode \in Modes /\ form \in Forms
        /\ class \in [Files -> ClassesFor(form)]
        /\ form = "stdin" => \A f, g \in Files : class[f] = class[g]      \* one input only: all "files" are the stream
        /\ bytes = [f \in Files |-> OldBytes(class[f])]
        /\ pos = [f \in Files |-> 0]
        /\ pc = [f \in Files |-> "start"]
        /\ stdout = <<>> /\ err = FALSE /\ exited = FALSE
        /\ usage = (mode = "files" /\ form = "stdin")

Active == ~usage /\ ~exited
Stream == CHOOSE f \in Files : TRUE          \* with form = "stdin" only this one is processed
Eligible(f) == Active /\ (form = "stdin" => f = Stream)

OpenRead(f) == /\ Eligible(f) /\ pc[f] = "start"
               /\ IF class[f] \in {"missing", "dangling"}
                    THEN /\ err' = TRUE /\ pc' = [pc EXCEPT ![f] = "done"] /\ UNCHANGED pos
                    ELSE /\ pos' = [pos EXCEPT ![f] = Len(bytes[f])]       \* the whole file was read
                         /\ pc' = [pc EXCEPT ![f] = "read"] /\ UNCHANGED err
               /\ UNCHANGED <<class, mode, form, bytes, stdout, usage, exited>>

Decode(f) == /\ Active /\ pc[f] = "read"
             /\ IF class[f] = "undecodable"
                  THEN err' = TRUE /\ pc' = [pc EXCEPT ![f] = "done"]
                  ELSE UNCHANGED err /\ pc' = [pc EXCEPT ![f] = "decoded"]
             /\ UNCHANGED <<class, mode, form, bytes, pos, stdout, usage, exited>>

Format(f) == /\ Active /\ pc[f] = "decoded"
             /\ pc' = [pc EXCEPT ![f] = "formatted"]
             /\ UNCHANGED <<class, mode, form, bytes, pos, stdout, err, usage, exited>>

Unchanged(f) == NewBytes(class[f]) = OldBytes(class[f])

SkipUnchanged(f) == /\ Active /\ pc[f] = "formatted" /\ mode = "files" /\ Unchanged(f)
                    /\ pc' = [pc EXCEPT ![f] = "done"]
                    /\ UNCHANGED <<class, mode, form, bytes, pos, stdout, err, usage, exited>>

Seek(f) == /\ Active /\ pc[f] = "formatted" /\ mode = "files" /\ ~Unchanged(f)
           /\ pos' = [pos EXCEPT ![f] = IF NO_SEEK THEN pos[f] ELSE 0]
           /\ pc' = [pc EXCEPT ![f] = "seeked"]
           /\ UNCHANGED <<class, mode, form, bytes, stdout, err, usage, exited>>

Overwrite(b, p, new) == SubSeq(b, 1, p) \o new \o SubSeq(b, p + Len(new) + 1, Len(b))

Write(f) == /\ Active /\ pc[f] = "seeked"
            /\ bytes' = [bytes EXCEPT ![f] = Overwrite(bytes[f], pos[f], NewBytes(class[f]))]
            /\ pos' = [pos EXCEPT ![f] = pos[f] + Len(NewBytes(class[f]))]
            /\ pc' = [pc EXCEPT ![f] = "written"]
            /\ UNCHANGED <<class, mode, form, stdout, err, usage, exited>>

SetLen(f) == /\ Active /\ pc[f] = "written"
             /\ LET n == Len(NewBytes(class[f])) IN
                bytes' = [bytes EXCEPT ![f] = IF NO_SETLEN THEN bytes[f] ELSE SubSeq(bytes[f], 1, n)]
             /\ pc' = [pc EXCEPT ![f] = "done"]
             /\ UNCHANGED <<class, mode, form, pos, stdout, err, usage, exited>>

PrintNamed(f) == /\ Active /\ pc[f] = "formatted" /\ mode = "stdout"
            /\ stdout' = Append(stdout, <<f, NewBytes(class[f])>>)
            /\ pc' = [pc EXCEPT ![f] = "done"]
            /\ UNCHANGED <<class, mode, form, bytes, pos, err, usage, exited>>

CheckCompare(f) == /\ Active /\ pc[f] = "formatted" /\ mode = "check"
                   /\ err' = (err \/ ~Unchanged(f))
                   /\ pc' = [pc EXCEPT ![f] = "done"]
                   /\ UNCHANGED <<class, mode, form, bytes, pos, stdout, usage, exited>>

Exit == /\ ~exited
        /\ usage \/ \A f \in Files : Eligible(f) => pc[f] = "done"
        /\ exited' = TRUE
        /\ UNCHANGED <<class, mode, form, bytes, pos, pc, stdout, err, usage>>

Next == (\E f \in Files : OpenRead(f) \/ Decode(f) \/ Format(f) \/ SkipUnchanged(f) \/ Seek(f) \/ Write(f) \/ SetLen(f)
                          \/ PrintNamed(f) \/ CheckCompare(f)) \/ Exit
Spec == Init /\ [][Next]_vars

---------------------------------------------------------------------------
ExitCode == IF usage THEN 2 ELSE IF err THEN 1 ELSE 0
Processed(f) == ~usage /\ (form = "stdin" => f = Stream)
Failing(f) == class[f] \in FailClasses \cup {"undecodable"}

\* files mode leaves exactly the formatted bytes - also when they are fewer than before
FilesModeWritesResult ==
  exited /\ mode = "files" /\ ~usage => \A f \in Files : ~Failing(f) => bytes[f] = NewBytes(class[f])
\* stdout and check modes never modify a file; nor does a rejected invocation
OnlyFilesModeWrites ==
  exited /\ (mode # "files" \/ usage) => \A f \in Files : bytes[f] = OldBytes(class[f])
\* a file that cannot be read or decoded is untouched and makes the exit status non-zero
FailuresUntouched ==
  exited => \A f \in Files : Failing(f) /\ Processed(f) => bytes[f] = OldBytes(class[f]) /\ ExitCode # 0
CheckExit ==
  exited /\ mode = "check" /\ ~usage =>
     (ExitCode = 0 <=> \A f \in Files : Processed(f) => (~Failing(f) /\ NewBytes(class[f]) = OldBytes(class[f])))
OtherExit ==
  exited /\ mode # "check" /\ ~usage => (ExitCode = 0 <=> \A f \in Files : Processed(f) => ~Failing(f))

Emit == exited => PrintT(<<"REPLAY", ToJson([mode |-> mode, form |-> form, class |-> class, exit |-> ExitCode,
                                             final |-> [f \in Files |-> IF bytes[f] = OldBytes(class[f]) THEN "old"
                                                                        ELSE IF bytes[f] = NewBytes(class[f]) THEN "new" ELSE "corrupt"],
                                             printed |-> [i \in 1..Len(stdout) |-> stdout[i][1]]])>>)
=============================================================================
