SPECIFICATION Spec
CONSTANTS
  N = 9
  Symbols = {"A", "B"}
  MaxSections = 3
  Kinds = {"stmt", "begin", "repeat", "try", "end", "until", "finally"}
  MaxBranch = 1
  MaxDepth = 2
INVARIANTS TypeOK WellFormed EmitUnreal
CHECK_DEADLOCK FALSE
