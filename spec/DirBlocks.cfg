SPECIFICATION Spec
CONSTANTS
  N = 7
  Symbols = {"A"}
  MaxSections = 2
  Kinds = {"stmt", "begin", "repeat", "while", "try", "end", "until", "finally"}
  MaxBranch = 3
  MaxDepth = 3
INVARIANTS TypeOK WellFormed Emit
CHECK_DEADLOCK FALSE
