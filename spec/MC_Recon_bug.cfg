SPECIFICATION Spec
CONSTANTS
  CONTRACTS = TRUE
  LF_LITERAL = TRUE
  Settings <- SettingsQuick
INVARIANTS EmittedBreaksConfigured OutBreaksConfigured Canonical UnitsArithmetic
CHECK_DEADLOCK FALSE
