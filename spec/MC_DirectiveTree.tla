--------------------------- MODULE MC_DirectiveTree ---------------------------
(* The pass iterator over every sequence of at most N token classes (plus the end-of-file token).               *)
EXTENDS DirectiveTree

CONSTANTS N, PASS_PRODUCT,     \* PASS_PRODUCT: bug switch - a pass does not mark what it visited in nested branches
          LONG                 \* 0: every sequence of <= N classes; K > 0: the scaled families below up to K alternatives

VARIABLES toks, phase, tree, passes, exhausted
vars == <<toks, phase, tree, passes, exhausted>>

\* Scaled families (no bound on the number of alternatives is part of the design: the iterator must go on until the
\* tree is explored, however many passes that takes).
Rep(s, k) == [i \in 1..(k * Len(s)) |-> s[((i - 1) % Len(s)) + 1]]
Chain(k) == <<"p", "if", "p">> \o Rep(<<"el", "p">>, k) \o <<"en", "p">>            \* one section, k + 1 alternatives
Ladder(k) == <<"p">> \o Rep(<<"if", "p", "el">>, k) \o <<"p">> \o Rep(<<"en">>, k)   \* else / if ladder, k deep
Nest(k) == Rep(<<"if", "p">>, k) \o Rep(<<"el", "p", "en">>, k)                      \* nested in the first branch
Side(k) == Rep(<<"if", "p", "el", "p", "en">>, k)                                     \* k sections side by side
Open(k) == Rep(<<"if", "p", "el">>, k)                                                \* never closed
Families == UNION {{Chain(k), Ladder(k), Nest(k), Side(k), Open(k)} : k \in 1..LONG}

Init == /\ toks \in (IF LONG = 0 THEN {<<>>} ELSE Families)
        /\ phase = "gen" /\ tree = <<>> /\ passes = <<>> /\ exhausted = FALSE

Extend == /\ phase = "gen" /\ LONG = 0 /\ Len(toks) < N
          /\ \E c \in {"p", "if", "el", "en"} : toks' = Append(toks, c)
          /\ UNCHANGED <<phase, tree, passes, exhausted>>

\* the scanner always appends the end-of-file token, which is not a directive
StartParse == /\ phase = "gen"
              /\ toks' = Append(toks, "p")
              /\ tree' = Parse(Append(toks, "p"))
              /\ phase' = "iter"
              /\ UNCHANGED <<passes, exhausted>>

NextPass == /\ phase = "iter" /\ ~exhausted
            /\ LET r == PassTree(tree, 1, <<>>, <<>>) IN
               /\ passes' = Append(passes, r.toks)
               /\ tree' = IF PASS_PRODUCT THEN tree ELSE r.tree
               /\ exhausted' = (IF PASS_PRODUCT THEN Len(passes) >= 40 ELSE TreeExplored(r.tree))
            /\ UNCHANGED <<toks, phase>>

Next == Extend \/ StartParse \/ NextPass
Spec == Init /\ [][Next]_vars /\ WF_vars(NextPass)

RangeOf(s) == {s[k] : k \in 1..Len(s)}
\* every pass visits positions in increasing order
Increasing == \A i \in 1..Len(passes) : \A k \in 1..(Len(passes[i]) - 1) : passes[i][k] < passes[i][k + 1]
\* the work is linear, not exponential, in the number of branches: each pass explores at least one new flat section
PassBound == phase = "iter" => Len(passes) <= FlatCount(tree)
\* when the iterator stops, every non-directive token has been visited
Cover == exhausted => \A p \in 1..Len(toks) : toks[p] = "p" => \E i \in 1..Len(passes) : p \in RangeOf(passes[i])
OnlyPlain == \A i \in 1..Len(passes) : \A k \in 1..Len(passes[i]) : toks[passes[i][k]] = "p"
Terminates == phase = "iter" ~> exhausted

Emit == exhausted => PrintT(<<"REPLAY", ToJson([toks |-> toks, passes |-> passes])>>)
=============================================================================
