--------------------------- MODULE MC_DirectiveTree ---------------------------
(* The pass iterator over every sequence of at most N token classes (plus the end-of-file token).               *)
EXTENDS DirectiveTree

CONSTANTS N, PASS_PRODUCT      \* PASS_PRODUCT: bug switch - a pass does not mark what it visited in nested branches

VARIABLES toks, phase, tree, passes, exhausted
vars == <<toks, phase, tree, passes, exhausted>>

Init == toks = <<>> /\ phase = "gen" /\ tree = <<>> /\ passes = <<>> /\ exhausted = FALSE

Extend == /\ phase = "gen" /\ Len(toks) < N
          /\ \E c \in {"p", "if", "el", "en"} : toks' = Append(toks, c)
          /\ UNCHANGED <<phase, tree, passes, exhausted>>

\* the scanner always appends the end-of-file token, which is not a directive
StartParse == /\ phase = "gen"
              /\ toks' = Append(toks, "p")
              /\ tree' = Parse(Append(toks, "p"))
              /\ phase' = "iter"
              /\ UNCHANGED <<passes, exhausted>>

NextPass == /\ phase = "iter" /\ ~exhausted
            /\ LET r == PassTree(tree, 1, <<>>, <<>>) IN
               /\ passes' = Append(passes, r.toks)
               /\ tree' = IF PASS_PRODUCT THEN tree ELSE r.tree
               /\ exhausted' = (IF PASS_PRODUCT THEN Len(passes) >= 40 ELSE TreeExplored(r.tree))
            /\ UNCHANGED <<toks, phase>>

Next == Extend \/ StartParse \/ NextPass
Spec == Init /\ [][Next]_vars /\ WF_vars(NextPass)

RangeOf(s) == {s[k] : k \in 1..Len(s)}
\* every pass visits positions in increasing order
Increasing == \A i \in 1..Len(passes) : \A k \in 1..(Len(passes[i]) - 1) : passes[i][k] < passes[i][k + 1]
\* the work is linear, not exponential, in the number of branches: each pass explores at least one new flat section
PassBound == phase = "iter" => Len(passes) <= FlatCount(tree)
\* when the iterator stops, every non-directive token has been visited
Cover == exhausted => \A p \in 1..Len(toks) : toks[p] = "p" => \E i \in 1..Len(passes) : p \in RangeOf(passes[i])
OnlyPlain == \A i \in 1..Len(passes) : \A k \in 1..Len(passes[i]) : toks[passes[i][k]] = "p"
Terminates == phase = "iter" ~> exhausted

Emit == exhausted => PrintT(<<"REPLAY", ToJson([toks |-> toks, passes |-> passes])>>)
=============================================================================
