SPECIFICATION Spec
CONSTANTS
  REMOVER = FALSE
INVARIANTS Preserved
CHECK_DEADLOCK FALSE
