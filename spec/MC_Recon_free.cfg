SPECIFICATION Spec
CONSTANTS
  CONTRACTS = FALSE
  LF_LITERAL = FALSE
  Settings <- SettingsQuick
INVARIANTS EmittedBreaksConfigured OutBreaksConfigured Canonical UnitsArithmetic Emit2
CHECK_DEADLOCK FALSE
