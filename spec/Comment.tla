------------------------------- MODULE Comment -------------------------------
(* The two text normalisations that touch comments and directives (C01, C02, C03):                               *)
(*   LineCommentNorm : `//x` -> `// x` (not for separator lines such as //--------), trailing blanks trimmed     *)
(*   DirectiveNorm   : the directive name (or the switch list, e.g. r+,q-) is upper-cased                         *)
(* Texts are whole tokens: `//...` without the line break, `{$...}` or `(*$...*)`.                               *)
EXTENDS Naturals, Integers, Sequences, Chars

RECURSIVE TrimEnd(_)
TrimEnd(t) == IF Len(t) >= 1 /\ IsAsciiWs(t[Len(t)]) THEN TrimEnd(SubSeq(t, 1, Len(t) - 1)) ELSE t

\* letters and digits beyond ASCII count as alphanumeric as well (only the ones the models use are listed)
IsAlnumU(c) == IsAlnum(c) \/ c = 233
AllEqual(t) == \A k \in 1..Len(t) : t[k] = t[1]
IsSeparator(body) == LET b == TrimEnd(body) IN Len(b) >= 10 /\ ~IsAlnumU(b[1]) /\ AllEqual(b)

LineCommentNorm(t, TRIM_CONTROL) ==
  IF ~(Len(t) >= 2 /\ t[1] = 47 /\ t[2] = 47) THEN t
  ELSE LET p == IF Len(t) >= 3 /\ t[3] = 47 THEN 3 ELSE 2
           body == SubSeq(t, p + 1, Len(t))
           spaced == IF Len(body) >= 1 /\ ~IsAsciiWs(body[1]) /\ ~IsSeparator(body)
                       THEN SubSeq(t, 1, p) \o <<SPACE>> \o body ELSE t
           Trim(x) == IF TRIM_CONTROL
                        THEN (LET e == CHOOSE e \in 0..Len(x) : (\A k \in (e + 1)..Len(x) : x[k] < 32 \/ x[k] = 32 \/ x[k] = 127) /\ (e = 0 \/ ~(x[e] <= 32 \/ x[e] = 127))
                              IN SubSeq(x, 1, e))
                        ELSE TrimEnd(x)
       IN Trim(spaced)

\* the directive-name recogniser: a word (letters, digits, `_`) or a list of switches (letter followed by + / - or digits)
\* Returns the length of the part that is upper-cased, or 0 when nothing is.
RECURSIVE DirScan(_, _, _, _, _)
DirScan(s, i, state, isSwitch, len) ==
  IF i > Len(s) THEN len
  ELSE LET b == s[i]
           letter == IsAlpha(b)  digit == IsDigit(b)  pm == b \in {43, 45}  comma == b = 44  under == b = 95
       IN IF state \in {"Before", "AfterComma"} /\ letter THEN DirScan(s, i + 1, "AfterLetter", isSwitch, len + 1)
          ELSE IF state = "AfterLetter" /\ pm THEN DirScan(s, i + 1, "AfterPlusMinus", TRUE, len + 1)
          ELSE IF state \in {"AfterPlusMinus", "AfterDigit"} /\ comma THEN DirScan(s, i + 1, "AfterComma", isSwitch, len + 1)
          ELSE IF state \in {"AfterLetter", "AfterDigit"} /\ digit THEN DirScan(s, i + 1, "AfterDigit", TRUE, len + 1)
          ELSE IF state \in {"AfterLetter", "AfterWord"} /\ (letter \/ digit \/ under) /\ ~isSwitch THEN DirScan(s, i + 1, "AfterWord", isSwitch, len + 1)
          ELSE IF state = "AfterLetter" /\ comma THEN 0
          ELSE IF state \in {"AfterComma", "AfterLetter"} THEN 0
          ELSE len

DirectiveNorm(t) ==
  LET p == IF Len(t) >= 2 /\ t[1] = 123 /\ t[2] = 36 THEN 2
           ELSE IF Len(t) >= 3 /\ t[1] = 40 /\ t[2] = 42 /\ t[3] = 36 THEN 3 ELSE 0
  IN IF p = 0 THEN t
     ELSE LET rest == SubSeq(t, p + 1, Len(t))
              n == DirScan(rest, 1, "Before", FALSE, 0)
          IN [k \in 1..Len(t) |-> IF k > p /\ k <= p + n THEN Up(t[k]) ELSE t[k]]
=============================================================================
