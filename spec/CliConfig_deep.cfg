SPECIFICATION Spec
CONSTANTS
  Depth = 3
INVARIANTS ErrorBeforeTouch Precedence NearestOnly Emit
CHECK_DEADLOCK FALSE
