SPECIFICATION Spec
CONSTANTS
  Depth = 3
  Explicit = FALSE
INVARIANTS ErrorBeforeTouch Precedence NearestOnly Emit
CHECK_DEADLOCK FALSE
