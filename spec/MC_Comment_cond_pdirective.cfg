SPECIFICATION Spec
CONSTANTS
  Alphabet = {97, 90, 43, 32, 42, 125}
  N = 3
  Kind = "pdirective"
  Prefixes <- PrefixesCond
  TRIM_CONTROL = FALSE
INVARIANTS NonBlankKept CaseOnlyInName Fixpoint NoTrailingBlanks Emit
CHECK_DEADLOCK FALSE
