SPECIFICATION Spec
CONSTANTS
  Depth = 2
  Explicit = TRUE
INVARIANTS ErrorBeforeTouch Precedence NearestOnly Emit
CHECK_DEADLOCK FALSE
