------------------------------- MODULE Reflow -------------------------------
(* The second pass of the optimising line formatter (C03, C11, C12).                                            *)
(*                                                                                                              *)
(* After every logical line has been wrapped, the multi-line string literals are re-indented line by line; a   *)
(* logical line in which at least one literal was rewritten must be wrapped again, and since wrapping always    *)
(* starts from the top-level ancestor it is that ancestor which is queued - once.                               *)
(*   lines : sequence of [parent |-> index of the parent line, 0 for a top-level line,                          *)
(*                        lits   |-> for each multi-line literal of the line: is it rewritten (displaced)?]     *)
EXTENDS Naturals, Sequences, FiniteSets

RECURSIVE RootOf(_, _)
RootOf(lines, l) == IF lines[l].parent = 0 THEN l ELSE RootOf(lines, lines[l].parent)

ChangedLines(lines) == {l \in 1..Len(lines) : \E k \in 1..Len(lines[l].lits) : lines[l].lits[k]}
ToReflow(lines) == {RootOf(lines, l) : l \in ChangedLines(lines)}

\* the same from what a run records: parent of every line, the line of every token, the tokens that were rewritten
RECURSIVE RootP(_, _)
RootP(parents, l) == IF parents[l] = 0 THEN l ELSE RootP(parents, parents[l])
ExpectedReflowCount(parents, lineOfTok, rewritten) ==
  Cardinality({RootP(parents, lineOfTok[t]) : t \in {x \in rewritten : lineOfTok[x] # 0}})
=============================================================================
