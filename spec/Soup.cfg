CONSTANTS
