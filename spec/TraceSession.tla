---------------------------- MODULE TraceSession ----------------------------
(* Trace validation of recorded sessions of real formatter calls against Props / Session.                      *)
(* Events:  Reset | Call(c, check) | Rel(rel, a, b).   Monitors never block the trace: a violated predicate     *)
(* prints a VIOL line and the trace goes on, so every call of a batch is judged.                                *)
EXTENDS Session, TLC, Json, IOUtils

Rec == ndJsonDeserialize(IOEnv.TRACE)

VARIABLES l, calls
vars == <<l, calls>>

TraceInit == l = 1 /\ calls = <<>>

IsEvent(e) == l <= Len(Rec) /\ Rec[l].ev = e /\ l' = l + 1

Report(tag, what) == PrintT(<<tag, ToJson(what)>>)

Wants(e, p) == p \in RangeOf(e.check)

CallViolations(e) ==
  LET r == e.c IN
  IF ~r.ok THEN {<<"C04", "panic">>}
  ELSE
       (IF Wants(e, "C13") /\ ~C13_Lossless(r.in, r.tin) THEN {<<"C13", "lossless">>} ELSE {})
  \cup (IF Wants(e, "C13") /\ ~C13_Agrees(r.in, r.tin) THEN {<<"C13", "agrees_with_lexical_rules">>} ELSE {})
  \cup (IF Wants(e, "C13") /\ "tout" \in DOMAIN r /\ ~C13_Agrees(r.out, r.tout) THEN {<<"C13", "agrees_with_lexical_rules_out">>} ELSE {})
  \cup (IF Wants(e, "C01") /\ ~C01_Sequence(r) THEN {<<"C01", "sequence">>} ELSE {})
  \cup (IF Wants(e, "C01") /\ C01_Sequence(r) /\ ~C01_Case(r) THEN {<<"C01", "case">>} ELSE {})
  \cup (IF (Wants(e, "C08") \/ Wants(e, "C09")) /\ "ftab" \in DOMAIN r
          THEN {v \in WhitespaceViolations(r) : Wants(e, v[1]) \/ v[1] = "C01"} ELSE {})
  \cup (IF Wants(e, "C10") /\ "ftab" \in DOMAIN r /\ TableCoversOutput(r) /\ ~C10_Units(r) THEN {<<"C10", "units">>} ELSE {})
  \cup (IF Wants(e, "C02") /\ r.wf /\ "tout" \in DOMAIN r THEN {<<"C02", c>> : c \in C02_Violations(r, MLEq)} ELSE {})
  \cup (IF Wants(e, "C02") /\ r.wf /\ "idents" \in DOMAIN r /\ "tout" \in DOMAIN r /\ ~C02_IdentsKept(r) THEN {<<"C02", "identifier_case">>} ELSE {})
  \cup (IF Wants(e, "C05") /\ r.wf /\ "marks" \in DOMAIN r /\ "tout" \in DOMAIN r
          THEN {<<"C05", IF c = "own_line_inline_anon" THEN "own_line" ELSE c>> : c \in C05_Violations(r)} ELSE {})
  \cup (IF Wants(e, "C07") /\ "regions" \in DOMAIN r /\ ~C07_RegionsKept(r) THEN {<<"C07", "region_verbatim">>} ELSE {})
  \cup (IF Wants(e, "C07") /\ "ftab" \in DOMAIN r /\ Len(r.ftab) = Len(r.tin) /\ "asmtoks" \in DOMAIN r
          THEN LET m == ToggleMarksOf(r) IN
               (IF \E i \in 1..Len(r.tin) : m[i] /\ r.ftab[i][1] = 0 THEN {<<"C07", "region_marked">>} ELSE {})
               \cup (IF \E i \in 1..Len(r.tin) : ~m[i] /\ r.ftab[i][1] # 0 /\ i \notin RangeOf(r.asmtoks) THEN {<<"C07", "outside_formatted">>} ELSE {})
          ELSE {})
  \cup (IF Wants(e, "C12") /\ "tout" \in DOMAIN r THEN {<<"C12", c>> : c \in C12_Violations(r)} ELSE {})
  \cup (IF Wants(e, "C14") /\ "plines" \in DOMAIN r THEN {<<"C14", c>> : c \in C14_Violations(r)} ELSE {})
  \cup (IF Wants(e, "C15") /\ "ftab" \in DOMAIN r THEN {<<"C15", c>> : c \in C15_Violations(r)} ELSE {})

TraceReset == /\ IsEvent("Reset")
              /\ calls' = <<>>

TraceCall == /\ IsEvent("Call")
             /\ calls' = Append(calls, Rec[l].c)
             /\ LET vs == CallViolations(Rec[l]) IN
                \A v \in vs : Report("VIOL", [sid |-> Rec[l].sid, call |-> Len(calls) + 1, prop |-> v[1], clause |-> v[2]])
             /\ Report("OK", [sid |-> Rec[l].sid, call |-> Len(calls) + 1])

TraceRel == /\ IsEvent("Rel")
            /\ UNCHANGED calls
            /\ LET e == Rec[l]
                   vs == RelViolations(e.rel, calls[e.a], calls[e.b]) IN
               \A v \in vs : Report(IF v[1] = "SKIP" THEN "SKIP" ELSE "VIOL",
                                    [sid |-> e.sid, rel |-> e.rel, a |-> e.a, b |-> e.b, prop |-> v[1], clause |-> v[2]])

TraceNext == TraceReset \/ TraceCall \/ TraceRel
TraceSpec == TraceInit /\ [][TraceNext]_vars

TraceAccepted ==
  LET d == TLCGet("stats").diameter IN
  IF d - 1 = Len(Rec) THEN TRUE
  ELSE Print(<<"REJECTED", ToJson([matched |-> d - 1, of |-> Len(Rec)])>>, FALSE)
=============================================================================
