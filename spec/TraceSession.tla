---------------------------- MODULE TraceSession ----------------------------
(* Trace validation of recorded sessions of real formatter calls against Props / Session.                      *)
(* Events:  Reset | Call(c, check) | Rel(rel, a, b).   Monitors never block the trace: a violated predicate     *)
(* prints a VIOL line and the trace goes on, so every call of a batch is judged.                                *)
EXTENDS Session, TLC, Json, IOUtils

P == INSTANCE Pipeline
R == INSTANCE Recon
RF == INSTANCE Reflow
LineCommentKindsS == {"Comment(InlineLine)", "Comment(IndividualLine)"}

Rec == ndJsonDeserialize(IOEnv.TRACE)

VARIABLES l, calls
vars == <<l, calls>>

TraceInit == l = 1 /\ calls = <<>>

IsEvent(e) == l <= Len(Rec) /\ Rec[l].ev = e /\ l' = l + 1

Report(tag, what) == PrintT(<<tag, ToJson(what)>>)

Wants(e, p) == p \in RangeOf(e.check)

\* --- the recorded stage snapshots of the real pipeline against the frames of Pipeline.tla and the reconstructor of Recon.tla
StageNames == <<"lex", "parse", "consolidate", "consolidate", "consolidate", "ignore", "void", "initfmt", "format", "format", "format", "format", "format">>
ReconKind(k) == IF k \in LineCommentKindsS THEN "linecomment" ELSE IF k = "Eof" THEN "eof" ELSE "word"
StageDrift(r) ==
  LET S == r.stages
      n == Len(S)
      names == [i \in 1..n |-> S[i].stage]
      rows(i) == S[i].rows
      fmtIdx(i) == Cardinality({j \in 1..i : S[j].stage = "format"})
  IN (IF names # StageNames THEN {"stage_sequence"} ELSE {})
     \cup UNION {
        IF S[i].stage \in {"parse", "consolidate", "ignore", "void", "initfmt"} THEN (IF ~P!FrameNoText(rows(i - 1), rows(i)) THEN {"frame_" \o S[i].stage} ELSE {})
        ELSE IF S[i].stage = "format" THEN (IF ~P!FrameFormat(fmtIdx(i), rows(i - 1), rows(i)) THEN {"frame_format" \o ToString(fmtIdx(i))} ELSE {})
        ELSE {}
        : i \in 2..n}
StageViolations(r) ==
  LET S == r.stages  n == Len(S)  A == S[1].rows  B == S[n].rows IN
  (IF Len(A) # Len(B) THEN {<<"C01", "token_table_length">>}
   ELSE (IF \E i \in 1..Len(A) : FoldSeq(NonBlank(B[i].text)) # FoldSeq(NonBlank(A[i].text)) THEN {<<"C01", "token_text">>} ELSE {})
        \cup (IF \E i \in 1..Len(A) : B[i].ign /\ (B[i].text # A[i].text \/ B[i].ws # A[i].ws) THEN {<<"C07", "verbatim_token_changed">>} ELSE {}))
  \* the text that was emitted is what the reconstructor model renders from the final table
  \cup (IF R!Reconstruct([crlf |-> r.cfg.crlf, tabs |-> r.cfg.tabs, tw |-> r.cfg.tw, ci |-> r.cfg.ci],
                          [i \in 1..Len(B) |-> [kind |-> ReconKind(B[i].kind), text |-> B[i].text, ws |-> B[i].ws, ign |-> B[i].ign,
                                                nl |-> B[i].nl, ind |-> B[i].ind, cont |-> B[i].cont, sp |-> B[i].sp]]) # r.out
           /\ r.cfg.tw * r.cfg.ci <= 255
        THEN {<<"C01", "reconstruct">>} ELSE {})

\* --- the recorded second pass against Reflow.tla: the number of top-level lines queued for re-wrapping is the number of
\* distinct top-level ancestors of the lines that hold a rewritten literal
ReflowDrift(r) ==
  LET q == r.reflow IN
  IF \E k \in 1..Len(q.rewritten) : q.rewritten[k] < 1 \/ q.rewritten[k] > Len(q.line_of_tok) THEN {"reflow_token"}
  ELSE IF RF!ExpectedReflowCount(q.parents, q.line_of_tok, RangeOf(q.rewritten)) # q.n THEN {"reflow_queue"} ELSE {}

CallViolations(e) ==
  LET r == e.c IN
  IF ~r.ok THEN {<<"C04", "panic">>}
  ELSE
       (IF Wants(e, "C13") /\ ~C13_Lossless(r.in, r.tin) THEN {<<"C13", "lossless">>} ELSE {})
  \cup (IF Wants(e, "C13") /\ ~C13_Agrees(r.in, r.tin) THEN {<<"C13", "agrees_with_lexical_rules">>} ELSE {})
  \cup (IF Wants(e, "C13") /\ "tout" \in DOMAIN r /\ ~C13_Agrees(r.out, r.tout) THEN {<<"C13", "agrees_with_lexical_rules_out">>} ELSE {})
  \cup (IF Wants(e, "C01") /\ ~C01_Sequence(r) THEN {<<"C01", "sequence">>} ELSE {})
  \cup (IF Wants(e, "C01") /\ C01_Sequence(r) /\ ~C01_Case(r) THEN {<<"C01", "case">>} ELSE {})
  \cup (IF (Wants(e, "C08") \/ Wants(e, "C09")) /\ "ftab" \in DOMAIN r
          THEN {v \in WhitespaceViolations(r) : Wants(e, v[1]) \/ v[1] = "C01"} ELSE {})
  \cup (IF Wants(e, "C10") /\ "ftab" \in DOMAIN r /\ TableCoversOutput(r) /\ ~C10_Units(r) THEN {<<"C10", "units">>} ELSE {})
  \cup (IF Wants(e, "C02") /\ r.wf /\ "tout" \in DOMAIN r THEN {<<"C02", c>> : c \in C02_Violations(r, MLEq)} ELSE {})
  \* the text was rendered from a derivation of Grammar.tla: the scanner must find the tokens the generator wrote
  \cup (IF (Wants(e, "C02") \/ Wants(e, "C13")) /\ "intended" \in DOMAIN r /\ Len(PlainIdx(r.tin)) # r.intended
          THEN {<<IF Wants(e, "C02") THEN "C02" ELSE "C13", "generator_intent">>} ELSE {})
  \cup (IF Wants(e, "C02") /\ r.wf /\ "idents" \in DOMAIN r /\ "tout" \in DOMAIN r /\ ~C02_IdentsKept(r) THEN {<<"C02", "identifier_case">>} ELSE {})
  \cup (IF Wants(e, "C05") /\ r.wf /\ "marks" \in DOMAIN r /\ "tout" \in DOMAIN r
          THEN {<<"C05", IF c = "own_line_inline_anon" THEN "own_line" ELSE c>> : c \in C05_Violations(r)} ELSE {})
  \cup (IF Wants(e, "C07") /\ "regions" \in DOMAIN r /\ ~C07_RegionsKept(r) THEN {<<"C07", "region_verbatim">>} ELSE {})
  \cup (IF Wants(e, "C07") /\ "ftab" \in DOMAIN r /\ Len(r.ftab) = Len(r.tin) /\ "asmtoks" \in DOMAIN r
          THEN LET m == ToggleMarksOf(r) IN
               (IF \E i \in 1..Len(r.tin) : m[i] /\ r.ftab[i][1] = 0 THEN {<<"C07", "region_marked">>} ELSE {})
               \cup (IF \E i \in 1..Len(r.tin) : ~m[i] /\ r.ftab[i][1] # 0 /\ i \notin RangeOf(r.asmtoks) THEN {<<"C07", "outside_formatted">>} ELSE {})
          ELSE {})
  \cup (IF Wants(e, "C12") /\ "tout" \in DOMAIN r THEN {<<"C12", c>> : c \in C12_Violations(r)} ELSE {})
  \cup (IF Wants(e, "C14") /\ "plines" \in DOMAIN r THEN {<<"C14", c>> : c \in C14_Violations(r)} ELSE {})
  \cup (IF Wants(e, "C15") /\ "ftab" \in DOMAIN r THEN {<<"C15", c>> : c \in C15_Violations(r)} ELSE {})

TraceReset == /\ IsEvent("Reset")
              /\ calls' = <<>>

TraceCall == /\ IsEvent("Call")
             /\ calls' = Append(calls, Rec[l].c)
             /\ LET vs == CallViolations(Rec[l]) IN
                \A v \in vs : Report("VIOL", [sid |-> Rec[l].sid, call |-> Len(calls) + 1, prop |-> v[1], clause |-> v[2]])
             /\ ("stages" \in DOMAIN Rec[l].c) => \A d \in StageDrift(Rec[l].c) : Report("DRIFT", [sid |-> Rec[l].sid, module |-> "Pipeline", clause |-> d])
             \* (what the stage snapshots say about C01 / C07 is a statement about internal tables: the end-to-end predicates
             \* above are the judges; a disagreement of the snapshots with the models is drift)
             /\ ("stages" \in DOMAIN Rec[l].c) => \A v \in StageViolations(Rec[l].c) : Report("DRIFT", [sid |-> Rec[l].sid, module |-> "Pipeline", clause |-> v[2]])
             /\ ("stages" \in DOMAIN Rec[l].c) => Report("STAGES", [sid |-> Rec[l].sid])
             /\ ("reflow" \in DOMAIN Rec[l].c) => \A d \in ReflowDrift(Rec[l].c) : Report("DRIFT", [sid |-> Rec[l].sid, module |-> "Reflow", clause |-> d])
             /\ ("reflow" \in DOMAIN Rec[l].c) => Report("REFLOW", [sid |-> Rec[l].sid, rewritten |-> Len(Rec[l].c.reflow.rewritten), queued |-> Rec[l].c.reflow.n])
             /\ Report("OK", [sid |-> Rec[l].sid, call |-> Len(calls) + 1])

TraceRel == /\ IsEvent("Rel")
            /\ UNCHANGED calls
            /\ LET e == Rec[l]
                   vs == RelViolations(e.rel, calls[e.a], calls[e.b]) IN
               \A v \in vs : Report(IF v[1] = "SKIP" THEN "SKIP" ELSE "VIOL",
                                    [sid |-> e.sid, rel |-> e.rel, a |-> e.a, b |-> e.b, prop |-> v[1], clause |-> v[2]])

TraceNext == TraceReset \/ TraceCall \/ TraceRel
TraceSpec == TraceInit /\ [][TraceNext]_vars

TraceAccepted ==
  LET d == TLCGet("stats").diameter IN
  IF d - 1 = Len(Rec) THEN TRUE
  ELSE Print(<<"REJECTED", ToJson([matched |-> d - 1, of |-> Len(Rec)])>>, FALSE)
=============================================================================
