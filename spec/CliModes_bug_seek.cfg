SPECIFICATION Spec
CONSTANTS
  Files = {"f1", "f2", "f3"}
  NO_SETLEN = FALSE
  NO_SEEK = TRUE
INVARIANTS FilesModeWritesResult OnlyFilesModeWrites FailuresUntouched CheckExit OtherExit
CHECK_DEADLOCK FALSE
