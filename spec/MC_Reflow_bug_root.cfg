SPECIFICATION Spec
CONSTANTS
  OVERWRITE_FLAG = FALSE
  NO_ROOT = TRUE
INVARIANTS QueueIsRoots RewrittenCovered OnlyTopLevel
PROPERTIES Terminates
CHECK_DEADLOCK FALSE
