SPECIFICATION Spec
CONSTANTS
  N = 11
  Symbols = {"A"}
  MaxSections = 2
  Kinds = {"stmt", "begin", "repeat", "end", "until"}
  MaxBranch = 1
  MaxDepth = 2
INVARIANTS TypeOK WellFormed EmitUnreal
CHECK_DEADLOCK FALSE
