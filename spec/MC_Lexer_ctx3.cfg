SPECIFICATION Spec
CONSTANTS
  Alphabet = {10, 32, 34, 46, 49, 59, 64, 100, 101, 104, 110}
  N = 3
  Prefixes <- PrefixesCtx
INVARIANTS Lossless OneEofLast NonEmptyNonBlankStart Emit
PROPERTIES Progress
CHECK_DEADLOCK FALSE
