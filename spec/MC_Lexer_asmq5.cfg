SPECIFICATION Spec
CONSTANTS
  Alphabet = {10, 32, 34, 39, 59, 92, 97, 100, 101, 110}
  N = 5
  Prefixes <- PrefixesAsm
INVARIANTS Lossless OneEofLast NonEmptyNonBlankStart Emit
PROPERTIES Progress
CHECK_DEADLOCK FALSE
