SPECIFICATION Spec
CONSTANTS
  Alphabet = {45, 97}
  N = 12
  Kind = "line"
  Prefixes <- PrefixesNone
  TRIM_CONTROL = FALSE
INVARIANTS NonBlankKept CaseOnlyInName Fixpoint NoTrailingBlanks Emit
CHECK_DEADLOCK FALSE
