SPECIFICATION Spec
CONSTANTS
  Alphabet = {9, 10, 13, 31, 32, 33, 39, 47, 48, 57, 58, 64, 65, 70, 71, 90, 91, 95, 96, 97, 102, 103, 122, 123, 125, 127, 128, 160, 12287, 12288, 12289, 12351, 65279, 128515}
  N = 3
  Prefixes <- PrefixesNone
INVARIANTS Lossless OneEofLast NonEmptyNonBlankStart Emit
PROPERTIES Progress
CHECK_DEADLOCK FALSE
