----------------------------- MODULE MC_Comment -----------------------------
(* Every line comment / directive with a body of at most N code points over Alphabet.                            *)
EXTENDS Comment, TLC, Json

CONSTANTS Alphabet, N, Kind, TRIM_CONTROL     \* Kind: "line" | "doc" | "directive"

VARIABLES body, phase
vars == <<body, phase>>
Init == body = <<>> /\ phase = "gen"
Extend == phase = "gen" /\ Len(body) < N /\ (\E c \in Alphabet : body' = Append(body, c)) /\ UNCHANGED phase
Check == phase = "gen" /\ phase' = "done" /\ UNCHANGED body
Next == Extend \/ Check
Spec == Init /\ [][Next]_vars

Text == CASE Kind = "line" -> <<47, 47>> \o body [] Kind = "doc" -> <<47, 47, 47>> \o body [] OTHER -> <<123, 36>> \o body \o <<125>>
Norm(t) == IF Kind = "directive" THEN DirectiveNorm(t) ELSE LineCommentNorm(t, TRIM_CONTROL)

\* C01: the non-blank characters survive (up to the case of a directive name)
NonBlankKept == phase = "done" => FoldSeq(NonBlank(Norm(Text))) = FoldSeq(NonBlank(Text))
CaseOnlyInName == phase = "done" /\ Kind # "directive" => NonBlank(Norm(Text)) = NonBlank(Text)
\* C03: normalising twice changes nothing more
Fixpoint == phase = "done" => Norm(Norm(Text)) = Norm(Text)
\* C08: a line comment never ends in ordinary blanks
NoTrailingBlanks == phase = "done" /\ Kind # "directive" => LET t == Norm(Text) IN Len(t) = 0 \/ ~IsAsciiWs(t[Len(t)])

Emit == phase = "done" => PrintT(<<"REPLAY", ToJson([text |-> Text, norm |-> Norm(Text)])>>)
=============================================================================
