----------------------------- MODULE MC_Comment -----------------------------
(* Every line comment / directive with a body of at most N code points over Alphabet.                            *)
EXTENDS Comment, TLC, Json

CONSTANTS Alphabet, N, Kind, TRIM_CONTROL,    \* Kind: "line" | "doc" | "directive" | "pdirective" (the `(*$ .. *)` form)
          Prefixes                             \* set of texts one of which starts the body (directive names such as ifdef)

PrefixesNone == {<<>>}
\* if, ifdef, ifndef, ifopt, elseif, else, endif, ifend, IfDef, region
PrefixesCond == {<<105, 102>>, <<105, 102, 100, 101, 102>>, <<105, 102, 110, 100, 101, 102>>, <<105, 102, 111, 112, 116>>, <<101, 108, 115, 101, 105, 102>>, <<101, 108, 115, 101>>, <<101, 110, 100, 105, 102>>, <<105, 102, 101, 110, 100>>, <<73, 102, 68, 101, 102>>, <<114, 101, 103, 105, 111, 110>>}

\* separator lines: ten or more equal punctuation characters
PrefixesSep == {<<45,45,45,45,45,45,45,45,45,45>>, <<61,61,61,61,61,61,61,61,61,61>>, <<42,42,42,42,42,42,42,42,42,42,42>>, <<45,45,45,45,45,45,45,45,45>>}

VARIABLES body, phase, plen
vars == <<body, phase, plen>>
Init == body \in Prefixes /\ phase = "gen" /\ plen = Len(body)
Extend == phase = "gen" /\ Len(body) < plen + N /\ UNCHANGED plen /\ (\E c \in Alphabet : body' = Append(body, c)) /\ UNCHANGED phase
Check == phase = "gen" /\ phase' = "done" /\ UNCHANGED <<body, plen>>
Next == Extend \/ Check
Spec == Init /\ [][Next]_vars

Text == CASE Kind = "line" -> <<47, 47>> \o body [] Kind = "doc" -> <<47, 47, 47>> \o body [] Kind = "pdirective" -> <<40, 42, 36>> \o body \o <<42, 41>>
          [] OTHER -> <<123, 36>> \o body \o <<125>>
IsDir == Kind \in {"directive", "pdirective"}
Norm(t) == IF IsDir THEN DirectiveNorm(t) ELSE LineCommentNorm(t, TRIM_CONTROL)

\* C01: the non-blank characters survive (up to the case of a directive name)
NonBlankKept == phase = "done" => FoldSeq(NonBlank(Norm(Text))) = FoldSeq(NonBlank(Text))
CaseOnlyInName == phase = "done" /\ ~IsDir => NonBlank(Norm(Text)) = NonBlank(Text)
\* C03: normalising twice changes nothing more
Fixpoint == phase = "done" => Norm(Norm(Text)) = Norm(Text)
\* C08: a line comment never ends in ordinary blanks
NoTrailingBlanks == phase = "done" /\ ~IsDir => LET t == Norm(Text) IN Len(t) = 0 \/ ~IsAsciiWs(t[Len(t)])

Emit == phase = "done" => PrintT(<<"REPLAY", ToJson([text |-> Text, norm |-> Norm(Text)])>>)
=============================================================================
