SPECIFICATION Spec
CONSTANTS
  Budget = {10, 20, 30, 40, 60, 80, 120}
  Start = "Carry"
INVARIANTS Balanced RefsKnown Emit
CHECK_DEADLOCK FALSE
