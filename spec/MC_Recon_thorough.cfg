SPECIFICATION Spec
CONSTANTS
  CONTRACTS = TRUE
  LF_LITERAL = FALSE
  Settings <- SettingsThorough
INVARIANTS EmittedBreaksConfigured OutBreaksConfigured Canonical UnitsArithmetic Emit2
CHECK_DEADLOCK FALSE
