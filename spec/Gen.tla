-------------------------------- MODULE Gen --------------------------------
(* The program generator: a stack machine that performs a leftmost derivation of Grammar.tla.                    *)
(*                                                                                                              *)
(* State: the stack of pending symbols, the output so far, the remaining derivation budget, and the bookkeeping  *)
(* of structure marks: `cur` is the stack of constructs being derived (statement, declaration, registered item), *)
(* `refs` the stack of open blocks (each entry is the key of the construct that opened it), `nextKey` the next   *)
(* free key. Output items:                                                                                       *)
(*    <<"t", text>> / <<"i", text>>      a token / a token that the grammar knows to be an identifier            *)
(*    <<"m", kind, key, ref, delta>>     a mark for the NEXT token: kind S/D (statement / declaration member:    *)
(*                                       first on its line, delta units deeper than the line of token `ref`),    *)
(*                                       C (closer: first on its line at ref's indentation), B (control-flow     *)
(*                                       `begin`, only under begin_style=always_wrap), U (single-statement body   *)
(*                                       of then / else / do: first on its line, one unit deeper than the line   *)
(*                                       of the statement that controls it), R / A (registered, no               *)
(*                                       claim), T (item of a declaration part: at file level it starts a line,  *)
(*                                       not indented).                                                          *)
(*                                       ref = 0 is the file level (no indentation).                             *)
(* One action per kind of symbol, so that TLC's coverage shows which parts of the grammar were derived.           *)
EXTENDS Grammar, Json

CONSTANTS Budget,      \* number of non-terminal expansions with a free choice
          Start        \* start symbol

VARIABLES stack, out, budget, cur, refs, nextKey, done
vars == <<stack, out, budget, cur, refs, nextKey, done>>

Init == /\ stack = << <<"n", Start>> >>
        /\ out = <<>>
        /\ budget \in Budget
        /\ cur = <<>>
        /\ refs = <<0>>
        /\ nextKey = 1
        /\ done = FALSE

Top == Head(stack)
Pop == Tail(stack)

Terminal == /\ stack # <<>> /\ Top[1] \in {"t", "i"}
            /\ out' = Append(out, Top)
            /\ stack' = Pop
            /\ UNCHANGED <<budget, cur, refs, nextKey, done>>

\* expansion of a non-terminal: a free choice while there is budget, a terminating alternative afterwards
Expand == /\ stack # <<>> /\ Top[1] = "n"
          /\ LET alts == IF budget > 0 THEN Prods[Top[2]] ELSE MinProds[Top[2]] IN
             \E k \in 1..Len(alts) : stack' = alts[k] \o Pop
          /\ budget' = IF budget > 0 THEN budget - 1 ELSE 0
          /\ UNCHANGED <<out, cur, refs, nextKey, done>>

Mark(kind, ref, delta) == <<"m", kind, nextKey, ref, delta>>

\* @S / @D / @R / @A: a construct starts; its first token gets the next key
\* @U: the single statement that is the body of a control statement (then / else / do): it refers to the statement that
\* controls it (the construct being derived), not to the enclosing block
BeginConstruct == /\ stack # <<>> /\ Top[1] = "p" /\ Top[2] \in {"S", "D", "R", "A", "T", "U"}
                  /\ out' = Append(out, Mark(Top[2], IF Top[2] = "U" THEN (IF cur = <<>> THEN 0 ELSE cur[Len(cur)]) ELSE refs[Len(refs)], 1))
                  /\ cur' = Append(cur, nextKey)
                  /\ nextKey' = nextKey + 1
                  /\ stack' = Pop
                  /\ UNCHANGED <<budget, refs, done>>

\* @. : the construct ends; <<"e", key>> tells the layout engine where (to wrap whole constructs in directives)
EndConstruct == /\ stack # <<>> /\ Top = <<"p", ".">>
                /\ out' = Append(out, <<"e", cur[Len(cur)]>>)
                /\ cur' = SubSeq(cur, 1, Len(cur) - 1)
                /\ stack' = Pop
                /\ UNCHANGED <<budget, refs, nextKey, done>>

\* @{ : the current construct opens a block;  @} : the block is closed
OpenBlock == /\ stack # <<>> /\ Top = <<"p", "{">>
             /\ refs' = Append(refs, IF cur = <<>> THEN 0 ELSE cur[Len(cur)])
             /\ stack' = Pop
             /\ UNCHANGED <<out, budget, cur, nextKey, done>>

CloseBlock == /\ stack # <<>> /\ Top = <<"p", "}">>
              /\ refs' = SubSeq(refs, 1, Len(refs) - 1)
              /\ stack' = Pop
              /\ UNCHANGED <<out, budget, cur, nextKey, done>>

\* @C : the next token closes the innermost block;  @B : the next token is the `begin` of a control-flow body
CloserMark == /\ stack # <<>> /\ Top = <<"p", "C">>
              /\ out' = Append(out, Mark("C", refs[Len(refs)], 0))
              /\ nextKey' = nextKey + 1
              /\ stack' = Pop
              /\ UNCHANGED <<budget, cur, refs, done>>

\* @E : the next token is the `else` of the `if` statement being derived: first on its line, at the indentation of that statement
ElseMark == /\ stack # <<>> /\ Top = <<"p", "E">>
            /\ out' = Append(out, Mark("E", IF cur = <<>> THEN 0 ELSE cur[Len(cur)], 0))
            /\ nextKey' = nextKey + 1
            /\ stack' = Pop
            /\ UNCHANGED <<budget, cur, refs, done>>

BeginMark == /\ stack # <<>> /\ Top = <<"p", "B">>
             /\ out' = Append(out, Mark("B", IF cur = <<>> THEN 0 ELSE cur[Len(cur)], 0))
             \* the `begin` also becomes the current construct's block opener: nothing to do, the block refers to `cur`
             /\ nextKey' = nextKey + 1
             /\ stack' = Pop
             /\ UNCHANGED <<budget, cur, refs, done>>

Finish == /\ stack = <<>> /\ ~done
          /\ done' = TRUE
          /\ UNCHANGED <<stack, out, budget, cur, refs, nextKey>>

Next == Terminal \/ Expand \/ BeginConstruct \/ EndConstruct \/ OpenBlock \/ CloseBlock \/ CloserMark \/ BeginMark \/ ElseMark \/ Finish
Spec == Init /\ [][Next]_vars

---------------------------------------------------------------------------
\* the bookkeeping is balanced: at the end every construct and block has been closed
Balanced == done => cur = <<>> /\ refs = <<0>>
\* marks refer to keys handed out earlier
RefsKnown == \A i \in 1..Len(out) : out[i][1] = "m" => out[i][4] < out[i][3]

Emit == done => PrintT(<<"REPLAY", ToJson([start |-> Start, items |-> out])>>)
=============================================================================
