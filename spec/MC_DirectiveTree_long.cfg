SPECIFICATION Spec
CONSTANTS
  N = 0
  LONG = 45
  PASS_PRODUCT = FALSE
INVARIANTS Increasing PassBound Cover OnlyPlain Emit
PROPERTIES Terminates
CHECK_DEADLOCK FALSE
