SPECIFICATION Spec
CONSTANTS
  Alphabet = {10, 13, 32, 39, 97}
  N = 7
  Prefixes <- PrefixesNone
INVARIANTS Lossless OneEofLast NonEmptyNonBlankStart Emit
PROPERTIES Progress
CHECK_DEADLOCK FALSE
