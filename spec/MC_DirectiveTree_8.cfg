SPECIFICATION Spec
CONSTANTS
  N = 8
  LONG = 0
  PASS_PRODUCT = FALSE
INVARIANTS Increasing PassBound Cover OnlyPlain Emit
PROPERTIES Terminates
CHECK_DEADLOCK FALSE
