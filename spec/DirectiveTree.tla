---------------------------- MODULE DirectiveTree ----------------------------
(* Conditional-directive tree and its pass iterator (C04: no exponential blow-up, termination; C14: every token  *)
(* is visited by some pass).                                                                                     *)
(*                                                                                                              *)
(* A file is abstracted to the sequence of its token classes: "p" (anything that is not a conditional           *)
(* directive), "if" ({$if/ifdef/ifndef/ifopt}), "el" ({$else/elseif}), "en" ({$endif/ifend}).                   *)
(* A tree is a sequence of sections; a section is flat (a range of token positions, with an `explored` flag)     *)
(* or nested (a sequence of trees, one per branch). Unbalanced directives are tolerated: an unmatched `el` / `en` *)
(* at top level is ignored, an unterminated `if` simply ends with the file.                                      *)
EXTENDS Naturals, Sequences, FiniteSets, TLC, Json

Flat(lo, hi) == [flat |-> TRUE, lo |-> lo, hi |-> hi, explored |-> FALSE, kids |-> <<>>]     \* tokens lo..hi (empty if hi < lo)
Nested(kids) == [flat |-> FALSE, lo |-> 0, hi |-> 0, explored |-> FALSE, kids |-> kids]

\* ParseFlat: consume plain tokens from p; returns [sec, pos, cdk] where cdk is the directive that ended it ("none" at the end)
RECURSIVE PlainRun(_, _)
PlainRun(t, p) == IF p <= Len(t) /\ t[p] = "p" THEN PlainRun(t, p + 1) ELSE p
ParseFlat(t, p) ==
  LET e == PlainRun(t, p) IN
  [sec |-> Flat(p, e - 1), pos |-> IF e <= Len(t) THEN e + 1 ELSE e, cdk |-> IF e <= Len(t) THEN t[e] ELSE "none"]

\* ParseNext(top, p, acc): the sections of one tree; returns [tree, pos, cdk]
RECURSIVE ParseNext(_, _, _, _), ParseNested(_, _, _, _)
ParseNext(t, top, p, acc) ==
  LET f == ParseFlat(t, p)
      acc1 == Append(acc, f.sec)
  IN IF f.cdk = "if" THEN
       (LET n == ParseNested(t, f.pos, <<>>, TRUE) IN ParseNext(t, top, n.pos, Append(acc1, Nested(n.kids))))
     ELSE IF f.cdk # "none" /\ top THEN ParseNext(t, top, f.pos, acc1)            \* unmatched directive at top level: ignored
     ELSE [tree |-> acc1, pos |-> f.pos, cdk |-> f.cdk]

\* ParseNested: the branches of one `if`; first = parsing the if-branch
ParseNested(t, p, kids, first) ==
  LET b == ParseNext(t, FALSE, p, <<>>)
      kids1 == Append(kids, b.tree)
  IN IF b.cdk = "el" THEN ParseNested(t, b.pos, kids1, FALSE) ELSE [kids |-> kids1, pos |-> b.pos]

Parse(t) == ParseNext(t, TRUE, 1, <<>>).tree

RECURSIVE TreeExplored(_)
SecExplored(s) == IF s.flat THEN s.explored ELSE \A k \in 1..Len(s.kids) : TreeExplored(s.kids[k])
TreeExplored(tr) == \A i \in 1..Len(tr) : SecExplored(tr[i])

\* one pass: [tree, toks] - the tree with the visited flat sections marked, and the visited token positions in order
RECURSIVE PassTree(_, _, _, _)
PickKid(kids) == IF \E k \in 1..Len(kids) : ~TreeExplored(kids[k])
                   THEN CHOOSE k \in 1..Len(kids) : ~TreeExplored(kids[k]) /\ \A j \in 1..(k - 1) : TreeExplored(kids[j])
                   ELSE Len(kids)
PassTree(tr, i, accTree, accToks) ==
  IF i > Len(tr) THEN [tree |-> accTree, toks |-> accToks]
  ELSE LET s == tr[i] IN
       IF s.flat THEN PassTree(tr, i + 1, Append(accTree, [s EXCEPT !.explored = TRUE]), accToks \o [k \in 1..(s.hi - s.lo + 1) |-> s.lo + k - 1])
       ELSE IF Len(s.kids) = 0 THEN PassTree(tr, i + 1, Append(accTree, s), accToks)
       ELSE LET k == PickKid(s.kids)
                r == PassTree(s.kids[k], 1, <<>>, <<>>)
            IN PassTree(tr, i + 1, Append(accTree, [s EXCEPT !.kids = [s.kids EXCEPT ![k] = r.tree]]), accToks \o r.toks)

RECURSIVE FlatCount(_)
FlatCount(tr) == IF tr = <<>> THEN 0
                 ELSE (IF Head(tr).flat THEN 1 ELSE
                         (LET ks == Head(tr).kids
                              SumKids[j \in 0..Len(ks)] == IF j = 0 THEN 0 ELSE SumKids[j - 1] + FlatCount(ks[j])
                          IN SumKids[Len(ks)]))
                      + FlatCount(Tail(tr))
=============================================================================
