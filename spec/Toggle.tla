------------------------------- MODULE Toggle -------------------------------
(* `pasfmt off` / `pasfmt on` comments and the verbatim regions they delimit.                                   *)
EXTENDS Naturals, Integers, Sequences, Chars

S_pasfmt == <<112, 97, 115, 102, 109, 116>>
S_on == <<111, 110>>
S_off == <<111, 102, 102>>

\* body of a comment token after its opener, or <<-1>> if the token does not open like a comment
CommentBody(text) ==
  IF Len(text) >= 2 /\ text[1] = 47 /\ text[2] = 47 THEN SubSeq(text, 3, Len(text))
  ELSE IF Len(text) >= 2 /\ text[1] = 40 /\ text[2] = 42 THEN SubSeq(text, 3, Len(text))
  ELSE IF Len(text) >= 1 /\ text[1] = 123 THEN SubSeq(text, 2, Len(text))
  ELSE <<-1>>

\* "on", "off" or "none": ASCII blanks, `pasfmt` (any case), at least one ASCII blank, a maximal alphanumeric word
ToggleOf(text) ==
  LET b == CommentBody(text) IN
  IF b = <<-1>> THEN "none"
  ELSE LET p == SkipWhile(b, 1, "asciiws")
           q == p + 6
       IN IF ~(q - 1 <= Len(b) /\ FoldSeq(SubSeq(b, p, q - 1)) = S_pasfmt) THEN "none"
          ELSE LET w == SkipWhile(b, q, "asciiws")
                   e == SkipWhile(b, w, "alnum")
                   word == FoldSeq(SubSeq(b, w, e - 1))
               IN IF w = q THEN "none"
                  ELSE IF word = S_on THEN "on" ELSE IF word = S_off THEN "off" ELSE "none"

\* marks[i] for a list of <<isComment, toggle>>: inside a region, or a toggle comment itself
RECURSIVE MarksAcc(_, _, _, _)
MarksAcc(toggles, i, off, acc) ==
  IF i > Len(toggles) THEN acc
  ELSE LET t == toggles[i]
           off2 == IF t = "off" THEN TRUE ELSE IF t = "on" THEN FALSE ELSE off
       IN MarksAcc(toggles, i + 1, off2, Append(acc, off2 \/ t # "none"))

Marks(toggles) == MarksAcc(toggles, 1, FALSE, <<>>)
=============================================================================
