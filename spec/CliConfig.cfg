SPECIFICATION Spec
CONSTANTS
  Depth = 2
INVARIANTS ErrorBeforeTouch Precedence NearestOnly Emit
CHECK_DEADLOCK FALSE
