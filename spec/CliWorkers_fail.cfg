SPECIFICATION Spec
CONSTANTS
  Files = {"long", "short", "empty"}
  Workers = {"w1", "w2"}
  Failing = {"short"}
  NO_CLEAR = FALSE
INVARIANTS NoStaleBytes BatchEqualsSolo ExitStatus
PROPERTIES Terminates
CHECK_DEADLOCK FALSE
