SPECIFICATION Spec
CONSTANTS
  Alphabet = {10, 13, 32, 33, 34, 35, 36, 37, 38, 39, 40, 41, 42, 43, 46, 47, 48, 49, 58, 59, 60, 61, 62, 64, 69, 94, 95, 97, 101, 102, 123, 125, 233, 12288}
  N = 4
  Prefixes <- PrefixesNone
INVARIANTS Lossless OneEofLast NonEmptyNonBlankStart Emit
PROPERTIES Progress
CHECK_DEADLOCK FALSE
