SPECIFICATION Spec
CONSTANTS
  Files = {"f1", "f2", "f3", "f4"}
  Workers = {"w1", "w2", "w3"}
  Failing = {"f2"}
  NO_CLEAR = FALSE
INVARIANTS NoStaleBytes BatchEqualsSolo ExitStatus
PROPERTIES Terminates
CHECK_DEADLOCK FALSE
