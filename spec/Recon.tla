-------------------------------- MODULE Recon --------------------------------
(* The reconstructor: the last stage of the pipeline, which turns the final token table into text               *)
(* (C01, C08, C09, C10). Settings arithmetic is written from the documented meaning of the options:             *)
(*   unit         = one tab (use_tabs) or tab_width spaces                                                      *)
(*   indentation  = (levels + continuation_indents * continuations) units                                       *)
(* A token: [kind, text, ws, ign, nl, ind, cont, sp]; kind in {"word", "linecomment", "block", "eof"};          *)
(* ws = the blanks in front of it in the input (emitted verbatim for ignored tokens).                           *)
EXTENDS Naturals, Sequences, Chars

NLSeq(cfg) == IF cfg.crlf THEN <<CR, LF>> ELSE <<LF>>
Rep(x, n) == [i \in 1..n |-> x]
Unit(cfg) == IF cfg.tabs THEN <<TAB>> ELSE Rep(SPACE, cfg.tw)
RECURSIVE Times(_, _)
Times(s, n) == IF n = 0 THEN <<>> ELSE s \o Times(s, n - 1)

Indentation(cfg, ind, cont) == Times(Unit(cfg), ind + cfg.ci * cont)

HasLF(s) == \E k \in 1..Len(s) : s[k] = LF

\* the blanks emitted in front of token t, given whether the previous token was a line comment
\* (named deviation SafetyNetBreak: a token that would follow a line comment on its line gets a break)
Blanks(cfg, t, afterLineComment) ==
  IF t.ign THEN
    (IF afterLineComment /\ ~HasLF(t.ws) /\ t.kind # "eof" THEN NLSeq(cfg) ELSE <<>>) \o t.ws
  ELSE
    LET nls == IF afterLineComment /\ t.nl = 0 /\ t.kind # "eof" THEN 1 ELSE t.nl IN
    Times(NLSeq(cfg), nls) \o Indentation(cfg, t.ind, t.cont) \o Rep(SPACE, t.sp)

RECURSIVE Render(_, _, _, _)
Render(cfg, ts, i, afterLineComment) ==
  IF i > Len(ts) THEN <<>>
  ELSE Blanks(cfg, ts[i], afterLineComment) \o ts[i].text \o Render(cfg, ts, i + 1, ts[i].kind = "linecomment")

Reconstruct(cfg, ts) == Render(cfg, ts, 1, FALSE)
=============================================================================
