SPECIFICATION Spec
CONSTANTS
  Alphabet = {32, 9, 12288, 97, 39, 13, 10}
  N = 5
  Quotes = 3
  FirstBreak = "lf"
  STRIP_BY_LENGTH = TRUE
INVARIANTS NonBlankKept ValueKept Reindented Fixpoint ImplSubset
CHECK_DEADLOCK FALSE
