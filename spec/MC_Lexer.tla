------------------------------ MODULE MC_Lexer ------------------------------
(* The scanning machine over every text of at most N code points from Alphabet.                                 *)
(* Invariants are the clauses of C13 that do not need a second scanner; every completed behaviour is printed as *)
(* one REPLAY line (input + token list) and compared with the implementation's scanner by the harness.          *)
EXTENDS Lexer, TLC, Json, FiniteSets

CONSTANTS Alphabet, N,
          Prefixes      \* set of texts one of which starts the input: contexts in which the scanner's state matters
PrefixesNone == {<<>>}
\* 'x.asm ' | 'asm ' | 'x.end ' | 'x.begin ' | '&asm ' | 'asm end ' | 'x.\nasm ' | 'a. asm ' | 'x.Asm\n' | '{c}.asm ' | 'asm x.end '
PrefixesCtx == {<<120, 46, 97, 115, 109, 32>>,
                <<97, 115, 109, 32>>,
                <<120, 46, 101, 110, 100, 32>>,
                <<120, 46, 98, 101, 103, 105, 110, 32>>,
                <<38, 97, 115, 109, 32>>,
                <<97, 115, 109, 32, 101, 110, 100, 32>>,
                <<120, 46, 10, 97, 115, 109, 32>>,
                <<97, 46, 32, 97, 115, 109, 32>>,
                <<120, 46, 65, 115, 109, 10>>,
                <<123, 99, 125, 46, 97, 115, 109, 32>>,
                <<97, 115, 109, 32, 120, 46, 101, 110, 100, 32>>}

\* inside an asm body: `asm `
PrefixesAsm == {<<97, 115, 109, 32>>}

VARIABLES input, st, toks, done, phase, plen
vars == <<input, st, toks, done, phase, plen>>

Init == /\ input \in Prefixes /\ plen = Len(input)
        /\ phase = "gen"
        /\ st = InitState
        /\ toks = <<>>
        /\ done = FALSE

\* the text grows one code point at a time (no set of all texts is ever built) ...
Extend == /\ phase = "gen" /\ Len(input) < plen + N
          /\ \E c \in Alphabet : input' = Append(input, c)
          /\ UNCHANGED <<st, toks, done, phase, plen>>

\* ... and at any length the scanner may be started on it
Start == /\ phase = "gen"
         /\ phase' = "lex"
         /\ UNCHANGED <<input, st, toks, done, plen>>

LexToken == /\ phase = "lex" /\ ~done /\ ~AtEof(input, st)
            /\ LET n == NextToken(input, st) IN
               /\ st' = n.st
               /\ toks' = Append(toks, n.tok)
            /\ UNCHANGED <<input, done, phase, plen>>

LexEof == /\ phase = "lex" /\ ~done /\ AtEof(input, st)
          /\ toks' = Append(toks, EofToken(input, st))
          /\ st' = [st EXCEPT !.pos = Len(input) + 1]
          /\ done' = TRUE
          /\ UNCHANGED <<input, phase, plen>>

Next == Extend \/ Start \/ LexToken \/ LexEof
Spec == Init /\ [][Next]_vars

---------------------------------------------------------------------------
RECURSIVE Total(_, _)
Total(ts, n) == IF n = 0 THEN 0 ELSE ts[n].ws + ts[n].len + Total(ts, n - 1)

StartOf(ts, i) == Total(ts, i - 1) + ts[i].ws + 1

Lossless == Total(toks, Len(toks)) = st.pos - 1
OneEofLast == /\ \A i \in 1..Len(toks) : (toks[i].kind = "Eof") <=> (done /\ i = Len(toks))
              /\ done => Len(toks) >= 1 /\ st.pos = Len(input) + 1
NonEmptyNonBlankStart ==
  \A i \in 1..Len(toks) :
     /\ \A k \in (StartOf(toks, i) - toks[i].ws)..(StartOf(toks, i) - 1) : Blank(input[k])
     /\ toks[i].kind # "Eof" => toks[i].len >= 1 /\ ~Blank(input[StartOf(toks, i)])
     /\ toks[i].kind = "Eof" => toks[i].len = 0

Progress == [][phase = "lex" => (st'.pos > st.pos \/ (done' /\ st'.pos >= st.pos))]_vars

Emit == done => PrintT(<<"REPLAY", ToJson([in |-> input, toks |-> [i \in 1..Len(toks) |-> <<toks[i].ws, toks[i].len, toks[i].kind>>]])>>)
=============================================================================
